//go:build verif && vfs

package propsvfs

// C18 — a VFS read replica serves the same pages as a full restore.

import (
	"bytes"
	"context"
	"fmt"
	"github.com/psanford/sqlite3vfs"
	"io"
	"log/slog"
	"os"
	"path/filepath"
	"sync"
	"testing"
	"time"

	"github.com/benbjohnson/litestream"
	"github.com/benbjohnson/litestream/file"
	_ "github.com/mattn/go-sqlite3"
	"github.com/superfly/ltx"
	"pgregory.net/rapid"

	"verifharness/core"
	"verifharness/lsw"
)

var discard = slog.New(slog.NewTextHandler(io.Discard, nil))

func TestMain(m *testing.M) {
	lsw.Quiet()
	os.Exit(m.Run())
}

type c18Case struct {
	Cfg lsw.Config `json:"cfg"`
	Ops []lsw.Op   `json:"ops"` // primary ops plus "vfs-open", "vfs-poll", "vfs-time" (N selects the instant), "vfs-reset"
	// TinyCache gives the VFS file a two-page cache, so that nearly every compared page is fetched from the replica
	// through the page index (an entry that still points at a retired level-0 file cannot hide behind a cached copy).
	TinyCache bool `json:"tiny_cache,omitempty"`
	// Hydrate: 0 = pages are always fetched from the replica; 1 = background hydration into a temporary local file;
	// 2 = hydration into a persistent local file (kept across "vfs-reopen", resumed from its .meta companion).
	// A "vfs-open"/"vfs-reopen" with N=1 parks the hydration goroutine after it captured the position it hydrates to,
	// N=2 parks it just before it declares itself complete (phase hook); "vfs-hydrate-finish" lets it go on. Polls and
	// primary activity in between are thereby placed inside the hydration.
	Hydrate int `json:"hydrate,omitempty"`
}

func genC18(t *rapid.T) c18Case {
	cfg := lsw.GenConfig(t, core.Thorough())
	cfg.PageSize = rapid.SampledFrom([]int{512, 1024, 4096, 4096, 8192}).Draw(t, "ps")
	cfg.AutoVacuum = rapid.SampledFrom([]int{0, 1, 1, 2, 2}).Draw(t, "av")
	cfg.Levels = rapid.IntRange(1, 2).Draw(t, "levels")
	cfg.L0RetNS = rapid.SampledFrom([]int64{0, 1, 1, 1}).Draw(t, "l0ret")
	cfg.MaxSyncFr = rapid.SampledFrom([]int{0, 3}).Draw(t, "msf")
	m := lsw.NewGenModel(cfg)
	ops := []lsw.Op{{K: "insert", T: 0, N: 12, S: 2}, {K: "syncwait"}}
	n := rapid.IntRange(8, 30).Draw(t, "steps")
	opened := false
	hydrate := rapid.SampledFrom([]int{0, 0, 1, 2, 2}).Draw(t, "hydrate")
	openOp := func() []lsw.Op {
		o := lsw.Op{K: "vfs-open"}
		if hydrate > 0 {
			o.N = rapid.SampledFrom([]int{0, 0, 1, 2}).Draw(t, "parkHydration")
		}
		return []lsw.Op{o}
	}
	if rapid.IntRange(0, 2).Draw(t, "openEarly") > 0 {
		ops = append(ops, openOp()...)
		opened = true
	}
	for i := 0; i < n; i++ {
		r := rapid.IntRange(0, 99).Draw(t, "which")
		switch {
		case r < 38:
			o := m.AppOp(t)
			switch o.K {
			case "begin", "beginread", "openconn", "closeconn", "commit", "rollback", "endread":
				o = lsw.Op{K: "delete", T: 0, A: rapid.IntRange(0, 60).Draw(t, "a"), B: rapid.IntRange(60, 100).Draw(t, "b")}
			}
			o.C = 0
			ops = append(ops, o)
		case r < 52:
			// partial shrink: delete then give pages back
			ops = append(ops, lsw.Op{K: "delete", T: 0, A: rapid.IntRange(0, 50).Draw(t, "a"), B: rapid.IntRange(50, 100).Draw(t, "b")},
				lsw.Op{K: "incvacuum", N: rapid.IntRange(0, 10).Draw(t, "n")})
		case r < 58:
			ops = append(ops, lsw.Op{K: "sleep", N: 2}, lsw.Op{K: "syncwait"})
		case r < 62:
			// several replicated transactions of different kinds (growth, shrink by VACUUM or by incremental vacuum,
			// in-place change) picked up by ONE poll
			if !opened {
				ops = append(ops, openOp()...)
				opened = true
			}
			for k := rapid.IntRange(2, 4).Draw(t, "episodeFiles"); k > 0; k-- {
				switch rapid.IntRange(0, 4).Draw(t, "episodeKind") {
				case 0, 1:
					ops = append(ops, lsw.Op{K: "insert", T: 0, N: rapid.SampledFrom([]int{12, 30, 30}).Draw(t, "n"), S: rapid.IntRange(1, 3).Draw(t, "size")})
				case 2:
					a := rapid.IntRange(0, 70).Draw(t, "a")
					ops = append(ops, lsw.Op{K: "delete", T: 0, A: a, B: rapid.IntRange(a+10, 100).Draw(t, "b")}, lsw.Op{K: "vacuum"})
				case 3:
					a := rapid.IntRange(0, 70).Draw(t, "a")
					ops = append(ops, lsw.Op{K: "delete", T: 0, A: a, B: rapid.IntRange(a+10, 100).Draw(t, "b")}, lsw.Op{K: "incvacuum", N: rapid.IntRange(0, 10).Draw(t, "n")})
				default:
					a := rapid.IntRange(0, 90).Draw(t, "a")
					ops = append(ops, lsw.Op{K: "update", T: 0, A: a, B: rapid.IntRange(a, 100).Draw(t, "b")})
				}
				ops = append(ops, lsw.Op{K: "sleep", N: 2}, lsw.Op{K: "syncwait"})
			}
			ops = append(ops, lsw.Op{K: "vfs-poll"})
		case r < 72:
			ops = append(ops, lsw.Op{K: "compact", L: rapid.IntRange(1, cfg.Levels).Draw(t, "level")})
			if opened && rapid.Bool().Draw(t, "pollAfterCompact") {
				ops = append(ops, lsw.Op{K: "vfs-poll"})
			}
		case r < 76:
			ops = append(ops, lsw.Op{K: "snapshot"})
		case r < 90 || !opened:
			if !opened {
				ops = append(ops, openOp()...)
				opened = true
			} else if hydrate > 0 && rapid.IntRange(0, 3).Draw(t, "hydrateOp") == 0 {
				if rapid.Bool().Draw(t, "finishOrReopen") {
					ops = append(ops, lsw.Op{K: "vfs-hydrate-finish"})
				} else {
					// the replica moves on (and may compact / retire files) while the VFS file is closed
					ops = append(ops, lsw.Op{K: "vfs-close"})
					for k := rapid.IntRange(0, 3).Draw(t, "downSteps"); k > 0; k-- {
						a := rapid.IntRange(0, 90).Draw(t, "a")
						switch rapid.IntRange(0, 3).Draw(t, "downKind") {
						case 0:
							ops = append(ops, lsw.Op{K: "insert", T: 0, N: rapid.SampledFrom([]int{1, 12, 30}).Draw(t, "n"), S: rapid.IntRange(1, 3).Draw(t, "size")})
						case 1:
							ops = append(ops, lsw.Op{K: "update", T: 0, A: a, B: rapid.IntRange(a, 100).Draw(t, "b")})
						case 2:
							ops = append(ops, lsw.Op{K: "delete", T: 0, A: a, B: rapid.IntRange(a, 100).Draw(t, "b")}, lsw.Op{K: "vacuum"})
						default:
							ops = append(ops, lsw.Op{K: "delete", T: 0, A: a, B: rapid.IntRange(a, 100).Draw(t, "b")}, lsw.Op{K: "incvacuum", N: rapid.IntRange(0, 10).Draw(t, "n")})
						}
						ops = append(ops, lsw.Op{K: "sleep", N: 2}, lsw.Op{K: "syncwait"})
						if rapid.Bool().Draw(t, "downCompact") {
							ops = append(ops, lsw.Op{K: "compact", L: rapid.IntRange(1, cfg.Levels).Draw(t, "level")})
						}
					}
					ro := openOp()
					ro[0].K = "vfs-reopen"
					ops = append(ops, ro...)
				}
			} else {
				ops = append(ops, lsw.Op{K: "vfs-poll"})
			}
		case r < 94:
			ops = append(ops, lsw.Op{K: "vfs-time", N: rapid.IntRange(0, 1000).Draw(t, "instant")})
			// the poller may run while the historical view is installed; the view must not move
			if rapid.Bool().Draw(t, "pollInTimeTravel") {
				ops = append(ops, lsw.Op{K: "vfs-poll"})
			}
		case r < 97:
			// a reader holds the SHARED lock (its pages are cached by the comparison reads) while the primary moves on and
			// the poller runs; after it unlocks, the pages it reads are those of the new position
			ops = append(ops, lsw.Op{K: "vfs-lock"})
			for k := rapid.IntRange(1, 3).Draw(t, "lockedSteps"); k > 0; k-- {
				a := rapid.IntRange(0, 90).Draw(t, "a")
				if rapid.IntRange(0, 2).Draw(t, "lockedKind") == 0 {
					ops = append(ops, lsw.Op{K: "insert", T: 0, N: rapid.SampledFrom([]int{1, 5, 12}).Draw(t, "n"), S: 1})
				} else {
					ops = append(ops, lsw.Op{K: "update", T: 0, A: a, B: rapid.IntRange(a, 100).Draw(t, "b")})
				}
				ops = append(ops, lsw.Op{K: "sleep", N: 2}, lsw.Op{K: "syncwait"}, lsw.Op{K: "vfs-poll"})
			}
			ops = append(ops, lsw.Op{K: "vfs-unlock"})
		default:
			ops = append(ops, lsw.Op{K: "vfs-reset"})
		}
	}
	if !opened {
		ops = append(ops, openOp()...)
	}
	ops = append(ops, lsw.Op{K: "syncwait"}, lsw.Op{K: "vfs-reset"}, lsw.Op{K: "vfs-poll"})
	if hydrate > 0 {
		ops = append(ops, lsw.Op{K: "vfs-hydrate-finish"})
	}
	return c18Case{Cfg: cfg, Ops: ops, TinyCache: rapid.Bool().Draw(t, "tinyCache"), Hydrate: hydrate}
}

// hydGate parks the background hydration goroutine of the VFS file at a named phase (hook in /repo, verif build tag)
// until the harness lets it go on.
type hydGate struct {
	mu      sync.Mutex
	phase   string        // phase to park at ("" = none armed)
	arrived chan struct{} // closed when the goroutine reached the phase
	resume  chan struct{} // closed to let it continue
	parked  bool
}

func (g *hydGate) arm(phase string) {
	g.mu.Lock()
	g.phase, g.arrived, g.resume, g.parked = phase, make(chan struct{}), make(chan struct{}), false
	g.mu.Unlock()
}

func (g *hydGate) disarm() { g.release() }

func (g *hydGate) hook(_ *litestream.VFSFile, phase string) {
	g.mu.Lock()
	if g.phase != phase || g.parked {
		g.mu.Unlock()
		return
	}
	g.parked = true
	arrived, resume := g.arrived, g.resume
	g.mu.Unlock()
	close(arrived)
	<-resume
}

// waitParked waits until the hydration goroutine reached the armed phase (or hydration ended without reaching it).
func (g *hydGate) waitParked(vf *litestream.VFSFile) bool {
	g.mu.Lock()
	arrived := g.arrived
	g.mu.Unlock()
	if arrived == nil {
		return false
	}
	for k := 0; k < 20000; k++ {
		select {
		case <-arrived:
			return true
		default:
		}
		if _, complete, _, err := vf.VerifHydration(); complete || err != nil {
			return false
		}
		time.Sleep(500 * time.Microsecond)
	}
	return false
}

// release lets a parked (or still to be parked) hydration goroutine continue; reports whether it was parked.
func (g *hydGate) release() bool {
	g.mu.Lock()
	defer g.mu.Unlock()
	was := g.parked
	if g.resume != nil {
		close(g.resume)
	}
	g.phase, g.arrived, g.resume, g.parked = "", nil, nil, false
	return was
}

// hydWait waits (bounded; no oracle depends on it) until the background hydration is complete or failed.
func hydWait(vf *litestream.VFSFile, res *core.Result, mayStayDisabled bool) {
	n := 20000
	if mayStayDisabled {
		n = 400 // a time-travel request switches hydrated reads off and nothing switches them on again
	}
	for k := 0; k < n; k++ {
		enabled, complete, _, err := vf.VerifHydration()
		if !enabled {
			res.Labels = append(res.Labels, "hydration-not-started")
			return
		}
		if err != nil {
			res.Labels = append(res.Labels, "hydration-error")
			return
		}
		if complete {
			res.Labels = append(res.Labels, "reads-from-hydrated-file")
			return
		}
		time.Sleep(500 * time.Microsecond)
	}
	res.Labels = append(res.Labels, "hydration-not-complete-in-time")
}

func maskHdr(b []byte) []byte {
	c := append([]byte(nil), b...)
	if len(c) >= 28 {
		c[18], c[19] = 0, 0
		c[24], c[25], c[26], c[27] = 0, 0, 0, 0
	}
	return c
}

// shrinkNotFullRewrite reports whether some level-0 file in (from, to] lowers the commit without containing every page.
func shrinkNotFullRewrite(w *lsw.World, from, to ltx.TXID) bool {
	var prev uint32
	for n := ltx.TXID(1); n <= to; n++ {
		b, err := os.ReadFile(filepath.Join(w.ArchiveDir, ltx.FormatFilename(n, n)))
		if err != nil {
			continue
		}
		dec := ltx.NewDecoder(bytes.NewReader(b))
		if err := dec.Verify(); err != nil {
			continue
		}
		h := dec.Header()
		if n > from && prev != 0 && h.Commit < prev && uint32(dec.PageN()) < h.Commit {
			return true
		}
		prev = h.Commit
	}
	return false
}

func execC18(c c18Case) (res core.Result) {
	w, err := lsw.NewWorld(c.Cfg, core.WorkDir("c18"))
	if err != nil {
		panic(fmt.Sprintf("harness: new world: %v", err))
	}
	defer w.Cleanup()
	if err := w.Attach(); err != nil {
		panic(fmt.Sprintf("harness: attach: %v", err))
	}
	ctx := context.Background()
	res.Key = core.HashJSON(c)
	var vf *litestream.VFSFile
	hyd := &hydGate{}
	litestream.VerifVFSPhaseHook = hyd.hook
	defer func() {
		hyd.release()
		if vf != nil {
			_ = vf.Close()
		}
		litestream.VerifVFSPhaseHook = nil
	}()
	shrinkSeen, polledAfterCompaction := false, false
	pollAteShrink := false
	var lastChecked ltx.TXID
	defer func() {
		if shrinkSeen {
			res.Labels = append(res.Labels, "consumed-a-shrink")
		}
		if polledAfterCompaction {
			res.Labels = append(res.Labels, "poll-after-l0-compacted-away")
		}
		res.NonTrivial = shrinkSeen || polledAfterCompaction
	}()
	// compare checks the VFS view against an ordinary restore
	// l1Cursor mirrors how the VFS file seeds its level-1 cursor when it builds its index from a restore plan (open, time
	// travel, reset): the highest level-1 TXID not beyond its position, or the position itself when there is none.
	var l1Cursor ltx.TXID
	youngPage := false
	setCursor := func() {
		pos := vf.Pos().TXID
		l1Cursor = 0
		// the files of the plan that ends at the position the index was just built for (same listing, same planner)
		if plan, err := litestream.CalcRestorePlan(ctx, file.NewReplicaClient(w.ReplicaDir), pos, time.Time{}, discard); err == nil {
			for _, info := range plan {
				if info.Level == 1 && info.MaxTXID > l1Cursor {
					l1Cursor = info.MaxTXID
				}
			}
		}
		if l1Cursor == 0 {
			l1Cursor = pos
		}
	}
	var ttImage []byte // the timestamp restore the current time-travel view was compared with when it was installed
	compare := func(i int, o lsw.Op, timeTravel *time.Time) *core.Violation {
		pos := vf.Pos().TXID
		ref := filepath.Join(w.Dir, "c18-ref.db")
		defer os.Remove(ref)
		var rerr error
		var R []byte
		if timeTravel != nil && o.K == "vfs-poll" {
			// a poll while the historical view is installed: the view must still be what it was when it was installed
			// (a fresh timestamp restore may legitimately differ by now: compaction and retention rewrite the files)
			if ttImage == nil {
				return nil
			}
			R = ttImage
		} else {
			if timeTravel != nil {
				rerr = lsw.RestoreTo(ctx, w.ReplicaDir, ref, 0, *timeTravel)
			} else {
				rerr = lsw.RestoreTo(ctx, w.ReplicaDir, ref, pos, lsw.ZeroTime)
			}
			if rerr != nil {
				if timeTravel != nil {
					ttImage = nil
				}
				return nil // the position is not addressable by an ordinary restore right now: nothing to compare with
			}
			R, _ = os.ReadFile(ref)
			if timeTravel != nil {
				ttImage = R
			}
		}
		res.Evals++
		partial := pollAteShrink
		mk := func(oracle, format string, a ...any) *core.Violation {
			v := &core.Violation{Oracle: oracle, Msg: fmt.Sprintf("after step %d (%s) at TXID %d: ", i, o, pos) + fmt.Sprintf(format, a...)}
			if partial {
				// shape: since the index was last rebuilt from a restore plan, a POLL consumed a level-0 file that lowers
				// the commit without rewriting the whole database
				v.Shapes = append(v.Shapes, "vfs-partial-shrink")
			}
			if oracle == "page-read-error" && youngPage {
				// shape: the newest version of the failing page (at the VFS position) was written by a TXID that a
				// level-1 file covers which BEGINS at or before the level-1 cursor the index was built with - the poller
				// lists level 1 from that cursor + 1 by MinTXID and never sees such a file - and the level-0 file of
				// that TXID has been retired
				v.Shapes = append(v.Shapes, "vfs-young-replica-l1-never-polled")
			}
			return v
		}
		sz, err := vf.FileSize()
		if err != nil {
			return mk("filesize-error", "FileSize: %v", err)
		}
		if sz != int64(len(R)) {
			return mk("filesize", "FileSize reports %d bytes, a restore has %d", sz, len(R))
		}
		ps := c.Cfg.PageSize
		buf := make([]byte, ps)
		for pg := 0; (pg+1)*ps <= len(R); pg++ {
			if uint32(pg+1) == ltx.LockPgno(uint32(ps)) {
				continue
			}
			n, err := vf.ReadAt(buf, int64(pg)*int64(ps))
			if err != nil || n != ps {
				youngPage = c18YoungPage(w, uint32(pg+1), pos, l1Cursor)
				return mk("page-read-error", "ReadAt(page %d) = %d, %v", pg+1, n, err)
			}
			want := R[pg*ps : (pg+1)*ps]
			got := buf
			if pg == 0 {
				want, got = maskHdr(want), maskHdr(buf)
			}
			if !bytes.Equal(got, want) {
				return mk("page-content", "page %d served by the VFS differs from the restore", pg+1)
			}
		}
		lastChecked = pos
		return nil
	}
	var tsAtStep []time.Time
	locked, polledLocked := false, false
	var curT *time.Time
	ttSinceOpen := false
	for i, o := range c.Ops {
		if os.Getenv("VERIF_TRACE") != "" && vf != nil {
			sz, _ := vf.FileSize()
			fmt.Printf("TRACE before step %d %-12s vfs pos=%d size=%d pages locked=%v | %s\n", i, o.K, vf.Pos().TXID, sz/int64(c.Cfg.PageSize), locked, w.TraceState())
		}
		switch o.K {
		case "sleep":
			time.Sleep(time.Duration(o.N) * time.Millisecond)
		case "vfs-open", "vfs-reopen":
			if vf != nil || lsw.MaxL0(w.ReplicaDir) == 0 {
				continue
			}
			if c.Hydrate > 0 {
				v := litestream.NewVFS(file.NewReplicaClient(w.ReplicaDir), discard)
				v.PollInterval = time.Hour // the background ticker never fires; polls are issued by the harness
				if c.TinyCache {
					v.CacheSize = 2 * c.Cfg.PageSize
				}
				v.HydrationEnabled = true
				if c.Hydrate == 2 {
					v.HydrationPath = filepath.Join(w.Dir, "c18-hydrated.db")
				}
				switch o.N {
				case 1:
					hyd.arm("hydration_position")
				case 2:
					hyd.arm("hydration_before_complete")
				}
				f, _, err := v.Open("c18.db", sqlite3vfs.OpenMainDB|sqlite3vfs.OpenReadOnly)
				if err != nil {
					hyd.disarm()
					res.Violation = &core.Violation{Oracle: "open-error", Msg: fmt.Sprintf("step %d: VFS.Open: %v", i, err)}
					return res
				}
				vf = f.(*litestream.VFSFile)
				res.Labels = append(res.Labels, fmt.Sprintf("hydration-mode-%d", c.Hydrate))
				if o.K == "vfs-reopen" && c.Hydrate == 2 {
					res.Labels = append(res.Labels, "persistent-hydration-reopened")
				}
				ttSinceOpen = false
				if o.N == 0 {
					hydWait(vf, &res, false)
				} else if hyd.waitParked(vf) {
					res.Labels = append(res.Labels, "hydration-parked-"+hyd.phase)
				}
			} else {
				vf = litestream.NewVFSFile(file.NewReplicaClient(w.ReplicaDir), "c18.db", discard)
				vf.PollInterval = time.Hour // the background ticker never fires; polls are issued by the harness
				if c.TinyCache {
					vf.CacheSize = 2 * c.Cfg.PageSize
				}
				if err := vf.Open(); err != nil {
					res.Violation = &core.Violation{Oracle: "open-error", Msg: fmt.Sprintf("step %d: VFSFile.Open: %v", i, err)}
					vf = nil
					return res
				}
			}
			pollAteShrink = false
			curT = nil
			setCursor()
			if shrinkNotFullRewrite(w, 0, vf.Pos().TXID) {
				shrinkSeen = true
			}
			if v := compare(i, o, nil); v != nil {
				res.Violation = v
				return res
			}
		case "vfs-close":
			if vf == nil || locked {
				continue
			}
			hyd.release()
			_ = vf.Close()
			vf = nil
			curT = nil
		case "vfs-hydrate-finish":
			if vf == nil || c.Hydrate == 0 || locked {
				continue
			}
			wasParked := hyd.release()
			hydWait(vf, &res, ttSinceOpen)
			if wasParked {
				res.Labels = append(res.Labels, "hydration-finished-after-park")
			}
			if vf.TargetTime() != nil {
				// hydration that completes while a historical view is installed must leave the view alone
				if curT == nil {
					continue
				}
				res.Labels = append(res.Labels, "hydration-finished-during-time-travel")
				if v := compare(i, lsw.Op{K: "vfs-poll"}, curT); v != nil {
					if v.Oracle == "page-read-error" {
						res.Labels = append(res.Labels, "time-travel-files-retired")
						continue
					}
					v.Msg = "after hydration finished under time travel: " + v.Msg
					res.Violation = v
					return res
				}
				continue
			}
			if v := compare(i, o, nil); v != nil {
				res.Violation = v
				return res
			}
		case "vfs-lock":
			if vf == nil || locked || vf.TargetTime() != nil {
				continue
			}
			if err := vf.Lock(sqlite3vfs.LockShared); err != nil {
				continue
			}
			locked = true
			res.Labels = append(res.Labels, "reader-lock")
		case "vfs-unlock":
			if vf == nil || !locked {
				continue
			}
			locked = false
			if err := vf.Unlock(sqlite3vfs.LockNone); err != nil {
				res.Violation = &core.Violation{Oracle: "unlock-error", Msg: fmt.Sprintf("step %d: Unlock: %v", i, err)}
				return res
			}
			if polledLocked {
				res.Labels = append(res.Labels, "poll-under-reader-lock")
			}
			polledLocked = false
			if v := compare(i, o, nil); v != nil {
				res.Violation = v
				return res
			}
		case "vfs-poll":
			if vf == nil {
				continue
			}
			if vf.TargetTime() != nil {
				// a poll while a historical view is installed must leave the view alone
				if curT == nil {
					continue
				}
				_ = vf.VerifPoll(ctx)
				res.Labels = append(res.Labels, "poll-during-time-travel")
				if v := compare(i, o, curT); v != nil {
					if v.Oracle == "page-read-error" {
						// the files the historical view was built from were compacted and retired after it was installed
						// (level-0 retention is 1 ns in these cases): the view cannot be served any more, which is not what
						// this comparison is about (the view must not MOVE)
						res.Labels = append(res.Labels, "time-travel-files-retired")
						continue
					}
					res.Violation = v
					return res
				}
				continue
			}
			if locked {
				// updates are parked until the reader unlocks; its view is compared after the unlock
				_ = vf.VerifPoll(ctx)
				polledLocked = true
				if shrinkNotFullRewrite(w, 0, vf.Pos().TXID) {
					shrinkSeen = true
					pollAteShrink = true
				}
				continue
			}
			before := vf.Pos().TXID
			// was a level-0 file the poll would have read compacted away?
			have := false
			for _, f := range lsw.ListLTX(w.ReplicaDir) {
				if f.Level == 0 && f.Min == before+1 {
					have = true
				}
			}
			if !have && lsw.MaxL0(w.ReplicaDir) > before {
				polledAfterCompaction = true
			}
			if err := vf.VerifPoll(ctx); err != nil {
				res.Labels = append(res.Labels, "poll-error")
				// a failed poll leaves the previous view intact
				if vf.Pos().TXID != before {
					res.Violation = &core.Violation{Oracle: "poll-error-moved-position", Msg: fmt.Sprintf("step %d: poll failed (%v) but the position moved from %d to %d", i, err, before, vf.Pos().TXID)}
					return res
				}
			}
			if shrinkNotFullRewrite(w, before, vf.Pos().TXID) {
				shrinkSeen = true
				pollAteShrink = true
			}
			if v := compare(i, o, nil); v != nil {
				res.Violation = v
				return res
			}
		case "vfs-time":
			if vf == nil || len(tsAtStep) == 0 || locked {
				continue
			}
			T := tsAtStep[o.N%len(tsAtStep)].Add(time.Millisecond)
			if err := vf.SetTargetTime(ctx, T); err != nil {
				res.Labels = append(res.Labels, "time-travel-refused")
				continue
			}
			res.Labels = append(res.Labels, "time-travel")
			ttSinceOpen = true
			tt := T
			curT = &tt
			setCursor()
			pollAteShrink = false
			if v := compare(i, o, &T); v != nil {
				res.Violation = v
				return res
			}
		case "vfs-reset":
			if vf == nil || locked {
				continue
			}
			if err := vf.ResetTime(ctx); err != nil {
				continue
			}
			curT = nil
			setCursor()
			pollAteShrink = false
			if v := compare(i, o, nil); v != nil {
				res.Violation = v
				return res
			}
		default:
			if lsw.IsLSOp(o.K) {
				sr := w.LSStep(o)
				w.ArchiveL0()
				if o.K == "syncwait" && sr.Acked {
					// replication instants usable as time-travel targets: the newest file time on the replica
					var newest time.Time
					for _, f := range lsw.ListLTX(w.ReplicaDir) {
						if f.Mod.After(newest) {
							newest = f.Mod
						}
					}
					tsAtStep = append(tsAtStep, newest)
				}
			} else {
				w.AppStep(o)
			}
		}
	}
	_ = lastChecked
	return res
}

// c18YoungPage decides the "young replica" shape for one page: the TXID that last wrote the page (at or before pos)
// is found in the archived level-0 files; the shape holds when that TXID's level-0 file is gone from the replica and
// the level-1 file covering it begins at or before the cursor.
func c18YoungPage(w *lsw.World, pgno uint32, pos, cursor ltx.TXID) bool {
	var last ltx.TXID
	ents, _ := os.ReadDir(w.ArchiveDir)
	for _, e := range ents {
		mn, mx, err := ltx.ParseFilename(e.Name())
		if err != nil || mn != mx || mx > pos || mx <= last {
			continue
		}
		f, err := os.Open(filepath.Join(w.ArchiveDir, e.Name()))
		if err != nil {
			continue
		}
		dec := ltx.NewDecoder(f)
		if dec.DecodeHeader() == nil {
			buf := make([]byte, dec.Header().PageSize)
			for {
				var hdr ltx.PageHeader
				if err := dec.DecodePage(&hdr, buf); err != nil {
					break
				}
				if hdr.Pgno == pgno {
					last = mx
					break
				}
			}
		}
		f.Close()
	}
	if last == 0 {
		return false
	}
	l0There, covered := false, false
	for _, f := range lsw.ListLTX(w.ReplicaDir) {
		if f.Level == 0 && f.Min <= last && last <= f.Max {
			l0There = true
		}
		if f.Level == 1 && f.Min <= cursor && f.Min <= last && last <= f.Max {
			covered = true
		}
	}
	return !l0There && covered
}

func TestProp_C18(t *testing.T) {
	core.Check(t, "C18", genC18, execC18)
}

func TestReplay(t *testing.T) {
	core.Register("C18", execC18)
	core.Replay(t)
}
