// Package drv talks to the lsdriver child process.
package drv

import (
	"bufio"
	"bytes"
	"encoding/json"
	"fmt"
	"io"
	"os"
	"os/exec"
	"path/filepath"
	"strconv"
	"strings"
	"sync"
	"syscall"
)

// Bin returns the path of the lsdriver binary built by the driver.
func Bin() string {
	if p := os.Getenv("VERIF_LSDRIVER"); p != "" {
		return p
	}
	b := os.Getenv("VERIF_BUILD")
	if b == "" {
		b = "/verif/.build"
	}
	return filepath.Join(b, "lsdriver")
}

// Reply is the answer to one command.
type Reply struct {
	OK      bool
	Err     string
	DBTX    uint64
	RTX     uint64
	Crashed bool   // the child died while executing the command
	Stderr  string // tail of the child's stderr (panic message) when it crashed
	Began   bool   // the child printed its BEGIN marker for this command
}

// Proc is one running child.
type Proc struct {
	Cmd    *exec.Cmd
	in     io.WriteCloser
	out    *bufio.Reader
	stderr *bytes.Buffer
	mu     sync.Mutex
	N      int
	dead   bool
	noWait bool // the process is reaped by somebody else (ptrace supervisor)
}

// Start launches lsdriver directly.
func Start() (*Proc, error) { return StartCmd(exec.Command(Bin())) }

// StartCmd launches the given command (lsdriver, possibly wrapped by a tracer).
func StartCmd(c *exec.Cmd) (*Proc, error) {
	in, err := c.StdinPipe()
	if err != nil {
		return nil, err
	}
	out, err := c.StdoutPipe()
	if err != nil {
		return nil, err
	}
	p := &Proc{Cmd: c, in: in, out: bufio.NewReaderSize(out, 1<<16), stderr: &bytes.Buffer{}}
	c.Stderr = p.stderr
	if err := c.Start(); err != nil {
		return nil, err
	}
	return p, nil
}

// Attach wraps already-created pipes (used by the ptrace supervisor, which starts the process itself).
func Attach(c *exec.Cmd, in io.WriteCloser, out io.Reader, stderr *bytes.Buffer) *Proc {
	return &Proc{Cmd: c, in: in, out: bufio.NewReaderSize(out, 1<<16), stderr: stderr, noWait: true}
}

// Send writes one command without waiting for the answer.
func (p *Proc) Send(c any) error {
	b, err := json.Marshal(c)
	if err != nil {
		return err
	}
	p.N++
	_, err = p.in.Write(append(b, '\n'))
	return err
}

// WaitBegin reads until the child reports that it has started executing the most recently sent command (its signal
// handlers are installed by then). Returns false if the child died first.
func (p *Proc) WaitBegin() bool {
	for {
		line, err := p.out.ReadString('\n')
		if strings.HasPrefix(strings.TrimSpace(line), "BEGIN ") {
			return true
		}
		if err != nil {
			return false
		}
	}
}

// Wait reads until the ACK of the most recently sent command (or child death).
func (p *Proc) Wait() Reply {
	var r Reply
	for {
		line, err := p.out.ReadString('\n')
		line = strings.TrimSpace(line)
		if strings.HasPrefix(line, "BEGIN ") {
			r.Began = true
			continue
		}
		if strings.HasPrefix(line, "ACK ") {
			f := strings.SplitN(line, " ", 4)
			if len(f) >= 3 {
				if n, _ := strconv.Atoi(f[1]); n != p.N {
					continue // stale ack
				}
				if f[2] == "ok" {
					r.OK = true
					if len(f) == 4 {
						g := strings.Fields(f[3])
						if len(g) == 2 {
							r.DBTX, _ = strconv.ParseUint(g[0], 10, 64)
							r.RTX, _ = strconv.ParseUint(g[1], 10, 64)
						}
					}
				} else if len(f) == 4 {
					r.Err = f[3]
				} else {
					r.Err = "error"
				}
				return r
			}
		}
		if err != nil {
			p.dead = true
			r.Crashed = true
			exit := ""
			if !p.noWait {
				if werr := p.Cmd.Wait(); werr != nil {
					exit = "[child exit: " + werr.Error() + "] "
				} else {
					exit = "[child exit: status 0] "
				}
			}
			s := exit + p.stderr.String()
			if len(s) > 3000 {
				s = s[:1500] + "\n...\n" + s[len(s)-1500:]
			}
			r.Stderr = s
			return r
		}
	}
}

// Do sends a command and waits for its answer.
func (p *Proc) Do(c any) Reply {
	if p.dead {
		return Reply{Crashed: true, Stderr: "child already dead"}
	}
	if err := p.Send(c); err != nil {
		p.dead = true
		if !p.noWait {
			_ = p.Cmd.Wait()
		}
		return Reply{Crashed: true, Stderr: fmt.Sprintf("write to child: %v; stderr: %s", err, p.stderr.String())}
	}
	return p.Wait()
}

// Dead reports whether the child has died.
func (p *Proc) Dead() bool { return p.dead }

// Kill terminates the child.
func (p *Proc) Kill() {
	if p.Cmd.Process != nil {
		_ = p.Cmd.Process.Kill()
	}
	_ = p.in.Close()
	if !p.noWait {
		_ = p.Cmd.Wait()
	}
	p.dead = true
}

// Term sends SIGTERM (clean stop of follow mode).
func (p *Proc) Term() {
	if p.Cmd.Process != nil {
		_ = p.Cmd.Process.Signal(syscall.SIGTERM)
	}
}

// Close asks the child to exit.
func (p *Proc) Close() {
	if p.dead {
		return
	}
	_ = p.Send(map[string]string{"op": "exit"})
	_ = p.in.Close()
	if !p.noWait {
		_ = p.Cmd.Wait()
	}
	p.dead = true
}
