// Package inject holds fault injectors that sit outside the code under test.
package inject

import (
	"context"
	"errors"
	"io"
	"log/slog"

	"github.com/benbjohnson/litestream"
	"github.com/superfly/ltx"
)

// Fault codes consulted once per ReplicaClient call.
const (
	OK            = 0
	FailBefore    = 1 // return an error, no effect
	FailAfter     = 2 // perform the operation, then return an error (the ambiguous case)
	PartialUpload = 3 // WriteLTXFile: consume some bytes of the reader, then fail, nothing stored
	ReadErrorAt   = 4 // OpenLTXFile: the returned reader fails with an error after Arg bytes
	ReadEOFAt     = 5 // OpenLTXFile: the returned reader ends early (io.EOF) after Arg bytes
	IterErrorAt   = 6 // LTXFiles: the iterator stops with an error after Arg items
)

// ErrInjected is the error returned by injected faults.
var ErrInjected = errors.New("injected storage fault")

// Fault is one planned fault.
type Fault struct {
	Code int `json:"c"`
	Arg  int `json:"a,omitempty"`
}

// Call records one client call for the harness.
type Call struct {
	Op    string
	Level int
	Min   ltx.TXID
	Max   ltx.TXID
	Fault Fault
	Err   error
}

// FaultClient wraps a ReplicaClient and injects faults according to a plan
// indexed by call number (cycled). After every call AfterCall is invoked.
type FaultClient struct {
	Inner     litestream.ReplicaClient
	Plan      []Fault
	Enabled   bool
	N         int
	AfterCall func(Call)
	Counts    map[string]int
	// Only, if non-empty, restricts fault consumption to the named op kind ("open", "write", "list", "delete").
	Only string
	// Once makes the plan one-shot: after len(Plan) calls every further call is clean (instead of cycling).
	Once bool
}

func (c *FaultClient) next(op string) Fault {
	if c.Counts == nil {
		c.Counts = map[string]int{}
	}
	if !c.Enabled || len(c.Plan) == 0 || (c.Only != "" && c.Only != op) {
		return Fault{}
	}
	if c.Once && c.N >= len(c.Plan) {
		return Fault{}
	}
	f := c.Plan[c.N%len(c.Plan)]
	c.N++
	// map inapplicable codes to the closest applicable one
	switch op {
	case "write":
		if f.Code >= ReadErrorAt {
			f.Code = FailBefore
		}
	case "open":
		if f.Code == PartialUpload || f.Code == FailAfter || f.Code == IterErrorAt {
			f.Code = FailBefore
		}
	case "list":
		if f.Code != OK && f.Code != IterErrorAt {
			f.Code = FailBefore
		}
	case "delete":
		if f.Code > FailAfter {
			f.Code = FailBefore
		}
	}
	if f.Code != OK {
		c.Counts[op+":"+codeName(f.Code)]++
	}
	return f
}

func codeName(c int) string {
	return [...]string{"ok", "fail-before", "fail-after-effect", "partial-upload", "read-error-at", "read-eof-at", "iter-error-at"}[c]
}

func (c *FaultClient) done(call Call) {
	if c.AfterCall != nil {
		c.AfterCall(call)
	}
}

func (c *FaultClient) Type() string                   { return c.Inner.Type() }
func (c *FaultClient) Init(ctx context.Context) error { return c.Inner.Init(ctx) }
func (c *FaultClient) SetLogger(l *slog.Logger)       { c.Inner.SetLogger(l) }
func (c *FaultClient) DeleteAll(ctx context.Context) error {
	return c.Inner.DeleteAll(ctx)
}

type faultIter struct {
	ltx.FileIterator
	left int
	err  error
}

func (it *faultIter) Next() bool {
	if it.left == 0 {
		it.err = ErrInjected
		return false
	}
	it.left--
	return it.FileIterator.Next()
}
func (it *faultIter) Err() error {
	if it.err != nil {
		return it.err
	}
	return it.FileIterator.Err()
}
func (it *faultIter) Close() error {
	e := it.FileIterator.Close()
	if it.err != nil {
		return it.err
	}
	return e
}

func (c *FaultClient) LTXFiles(ctx context.Context, level int, seek ltx.TXID, useMetadata bool) (ltx.FileIterator, error) {
	f := c.next("list")
	call := Call{Op: "list", Level: level, Fault: f}
	defer func() { c.done(call) }()
	if f.Code == FailBefore {
		call.Err = ErrInjected
		return nil, ErrInjected
	}
	it, err := c.Inner.LTXFiles(ctx, level, seek, useMetadata)
	if err != nil {
		call.Err = err
		return nil, err
	}
	if f.Code == IterErrorAt {
		return &faultIter{FileIterator: it, left: f.Arg % 4}, nil
	}
	return it, nil
}

type faultReader struct {
	rc   io.ReadCloser
	left int
	eof  bool
}

func (r *faultReader) Read(p []byte) (int, error) {
	if r.left <= 0 {
		if r.eof {
			return 0, io.EOF
		}
		return 0, ErrInjected
	}
	if len(p) > r.left {
		p = p[:r.left]
	}
	n, err := r.rc.Read(p)
	r.left -= n
	if err == nil && r.left <= 0 {
		// deliver the last bytes together with the failure, as network readers may
		if r.eof {
			return n, io.EOF
		}
		return n, ErrInjected
	}
	return n, err
}
func (r *faultReader) Close() error { return r.rc.Close() }

func (c *FaultClient) OpenLTXFile(ctx context.Context, level int, minTXID, maxTXID ltx.TXID, offset, size int64) (io.ReadCloser, error) {
	f := c.next("open")
	call := Call{Op: "open", Level: level, Min: minTXID, Max: maxTXID, Fault: f}
	defer func() { c.done(call) }()
	if f.Code == FailBefore {
		call.Err = ErrInjected
		return nil, ErrInjected
	}
	rc, err := c.Inner.OpenLTXFile(ctx, level, minTXID, maxTXID, offset, size)
	if err != nil {
		call.Err = err
		return nil, err
	}
	if f.Code == ReadErrorAt || f.Code == ReadEOFAt {
		return &faultReader{rc: rc, left: f.Arg, eof: f.Code == ReadEOFAt}, nil
	}
	return rc, nil
}

func (c *FaultClient) WriteLTXFile(ctx context.Context, level int, minTXID, maxTXID ltx.TXID, r io.Reader) (*ltx.FileInfo, error) {
	f := c.next("write")
	call := Call{Op: "write", Level: level, Min: minTXID, Max: maxTXID, Fault: f}
	defer func() { c.done(call) }()
	switch f.Code {
	case FailBefore:
		call.Err = ErrInjected
		return nil, ErrInjected
	case PartialUpload:
		_, _ = io.CopyN(io.Discard, r, int64(f.Arg))
		call.Err = ErrInjected
		return nil, ErrInjected
	}
	info, err := c.Inner.WriteLTXFile(ctx, level, minTXID, maxTXID, r)
	if err != nil {
		call.Err = err
		return nil, err
	}
	if f.Code == FailAfter {
		call.Err = ErrInjected
		return nil, ErrInjected
	}
	return info, nil
}

func (c *FaultClient) DeleteLTXFiles(ctx context.Context, a []*ltx.FileInfo) error {
	f := c.next("delete")
	call := Call{Op: "delete", Fault: f}
	defer func() { c.done(call) }()
	if f.Code == FailBefore {
		call.Err = ErrInjected
		return ErrInjected
	}
	err := c.Inner.DeleteLTXFiles(ctx, a)
	if err == nil && f.Code == FailAfter {
		err = ErrInjected
	}
	call.Err = err
	return err
}
