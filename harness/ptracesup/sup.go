//go:build linux && amd64

// Package ptracesup is a small ptrace supervisor (I2): it runs a child process
// with every thread traced, keeps ONE global counter of file-system-mutating
// system calls on paths under a scope directory, can SIGKILL the whole process
// at the syscall-enter stop of the k-th such call (so call k never executes),
// and can record the ordered trace of file-system calls for the C11 checker.
package ptracesup

import (
	"bytes"
	"fmt"
	"io"
	"os"
	"os/exec"
	"path/filepath"
	"runtime"
	"strings"
	"sync"
	"syscall"
)

const (
	optSysGood  = 0x1
	optFork     = 0x2
	optVFork    = 0x4
	optClone    = 0x8
	optExec     = 0x10
	optExitKill = 0x100000
)

// syscall numbers (x86_64)
const (
	sysWrite     = 1
	sysOpen      = 2
	sysClose     = 3
	sysPwrite64  = 18
	sysWritev    = 20
	sysFsync     = 74
	sysFdatasync = 75
	sysTruncate  = 76
	sysFtruncate = 77
	sysRename    = 82
	sysMkdir     = 83
	sysRmdir     = 84
	sysCreat     = 85
	sysLink      = 86
	sysUnlink    = 87
	sysChmod     = 90
	sysFchmod    = 91
	sysChown     = 92
	sysFchown    = 93
	sysOpenat    = 257
	sysMkdirat   = 258
	sysFchownat  = 260
	sysUnlinkat  = 263
	sysRenameat  = 264
	sysFchmodat  = 268
	sysUtimensat = 280
	sysFallocate = 285
	sysPwritev   = 296
	sysRenameat2 = 316
	sysDup       = 32
	sysDup2      = 33
	sysDup3      = 292
	sysFcntl     = 72
)

var names = map[int]string{sysWrite: "write", sysOpen: "open", sysClose: "close", sysPwrite64: "pwrite", sysWritev: "writev",
	sysFsync: "fsync", sysFdatasync: "fdatasync", sysTruncate: "truncate", sysFtruncate: "ftruncate", sysRename: "rename",
	sysMkdir: "mkdir", sysRmdir: "rmdir", sysCreat: "creat", sysLink: "link", sysUnlink: "unlink", sysChmod: "chmod", sysFchmod: "fchmod",
	sysChown: "chown", sysFchown: "fchown", sysOpenat: "openat", sysMkdirat: "mkdirat", sysFchownat: "fchownat", sysUnlinkat: "unlinkat",
	sysRenameat: "rename", sysFchmodat: "fchmodat", sysUtimensat: "utimensat", sysFallocate: "fallocate", sysPwritev: "pwritev", sysRenameat2: "rename"}

// Event is one traced file-system call (emitted at syscall exit, or at entry for the call that triggers a kill).
type Event struct {
	Seq     int    `json:"seq"`
	MutIdx  int    `json:"mut,omitempty"` // 1-based index among in-scope mutating calls (0 = not counted)
	Tid     int    `json:"tid"`
	Name    string `json:"name"`
	Path    string `json:"path,omitempty"`
	Path2   string `json:"path2,omitempty"`
	FD      int    `json:"fd,omitempty"`
	Flags   int    `json:"flags,omitempty"`
	Ret     int64  `json:"ret"`
	Data    string `json:"data,omitempty"` // payload of writes to stdout (ACK lines)
	Len     int    `json:"len,omitempty"`
	Off     int64  `json:"off,omitempty"`
	IsDirFD bool   `json:"dirfd,omitempty"`
}

// Options configures a supervised run.
type Options struct {
	ScopeDir string // only calls on paths under this directory are counted / recorded
	KillAt   int    // kill the process at the enter-stop of the KillAt-th in-scope mutating call (0 = never)
	Record   bool   // keep the trace
}

// Sup is a running supervised child.
type Sup struct {
	Stdin  io.WriteCloser
	Stdout io.Reader
	Stderr *bytes.Buffer
	Cmd    *exec.Cmd

	opts     Options
	done     chan struct{}
	exitInfo string
	mu       sync.Mutex
	trace    []Event
	mutN     int
	killed   bool
	killEv   *Event
	err      error
}

type pending struct {
	nr    int
	args  [6]uint64
	path  string
	path2 string
	mut   int
}

// Start launches argv under the tracer.
func Start(argv []string, env []string, opts Options) (*Sup, error) {
	s := &Sup{opts: opts, done: make(chan struct{}), Stderr: &bytes.Buffer{}}
	inR, inW, err := os.Pipe()
	if err != nil {
		return nil, err
	}
	outR, outW, err := os.Pipe()
	if err != nil {
		return nil, err
	}
	s.Stdin, s.Stdout = inW, outR
	started := make(chan error, 1)
	go func() {
		runtime.LockOSThread()
		defer runtime.UnlockOSThread()
		cmd := exec.Command(argv[0], argv[1:]...)
		cmd.Env = env
		cmd.Stdin, cmd.Stdout, cmd.Stderr = inR, outW, s.Stderr
		cmd.SysProcAttr = &syscall.SysProcAttr{Ptrace: true}
		s.Cmd = cmd
		if err := cmd.Start(); err != nil {
			started <- err
			close(s.done)
			return
		}
		inR.Close()
		outW.Close()
		pid := cmd.Process.Pid
		var ws syscall.WaitStatus
		if _, err := syscall.Wait4(pid, &ws, 0, nil); err != nil {
			started <- fmt.Errorf("wait exec stop: %w", err)
			close(s.done)
			return
		}
		if err := syscall.PtraceSetOptions(pid, optSysGood|optFork|optVFork|optClone|optExec|optExitKill); err != nil {
			started <- fmt.Errorf("setoptions: %w", err)
			_ = syscall.Kill(pid, syscall.SIGKILL)
			close(s.done)
			return
		}
		started <- nil
		s.loop(pid)
		_ = cmd.Wait()
		close(s.done)
	}()
	if err := <-started; err != nil {
		return nil, err
	}
	return s, nil
}

func (s *Sup) inScope(p string) bool {
	return p != "" && (p == s.opts.ScopeDir || strings.HasPrefix(p, s.opts.ScopeDir+"/"))
}

func peekString(tid int, addr uint64) string {
	if addr == 0 {
		return ""
	}
	var out []byte
	buf := make([]byte, 256)
	for len(out) < 4096 {
		n, err := syscall.PtracePeekData(tid, uintptr(addr)+uintptr(len(out)), buf)
		if err != nil || n == 0 {
			break
		}
		if i := bytes.IndexByte(buf[:n], 0); i >= 0 {
			out = append(out, buf[:i]...)
			break
		}
		out = append(out, buf[:n]...)
	}
	return string(out)
}

func peekBytes(tid int, addr uint64, n int) []byte {
	if n > 512 {
		n = 512
	}
	buf := make([]byte, n)
	m, err := syscall.PtracePeekData(tid, uintptr(addr), buf)
	if err != nil {
		return nil
	}
	return buf[:m]
}

func (s *Sup) loop(mainPid int) {
	inSys := map[int]*pending{}
	fds := map[int]string{} // fd -> absolute path (files and directories under any path)
	cwd, _ := os.Getwd()
	seq := 0
	resolve := func(dirfd int64, p string) string {
		if p == "" {
			return ""
		}
		if filepath.IsAbs(p) {
			return filepath.Clean(p)
		}
		if int32(dirfd) == -100 { // AT_FDCWD
			return filepath.Join(cwd, p)
		}
		if d, ok := fds[int(dirfd)]; ok {
			return filepath.Join(d, p)
		}
		return p
	}
	_ = syscall.PtraceSyscall(mainPid, 0)
	live := map[int]bool{mainPid: true}
	for len(live) > 0 {
		var ws syscall.WaitStatus
		tid, err := syscall.Wait4(-1, &ws, syscall.WALL, nil)
		if err != nil {
			if err == syscall.EINTR {
				continue
			}
			break
		}
		if ws.Exited() || ws.Signaled() {
			if tid == mainPid {
				s.mu.Lock()
				if ws.Exited() {
					s.exitInfo = fmt.Sprintf("exit status %d", ws.ExitStatus())
				} else {
					s.exitInfo = fmt.Sprintf("signal %v", ws.Signal())
				}
				s.mu.Unlock()
			}
			delete(live, tid)
			delete(inSys, tid)
			continue
		}
		if !ws.Stopped() {
			continue
		}
		live[tid] = true
		sig := ws.StopSignal()
		switch {
		case sig == syscall.SIGTRAP|0x80:
			// syscall enter or exit
			var regs syscall.PtraceRegs
			if err := syscall.PtraceGetRegs(tid, &regs); err != nil {
				_ = syscall.PtraceSyscall(tid, 0)
				continue
			}
			if p, ok := inSys[tid]; !ok {
				// ---- entry
				nr := int(regs.Orig_rax)
				p = &pending{nr: nr, args: [6]uint64{regs.Rdi, regs.Rsi, regs.Rdx, regs.R10, regs.R8, regs.R9}}
				inSys[tid] = p
				mutating := false
				switch nr {
				case sysOpen, sysCreat:
					p.path = resolve(-100, peekString(tid, p.args[0]))
					fl := int(p.args[1])
					if nr == sysCreat {
						fl = syscall.O_CREAT | syscall.O_WRONLY | syscall.O_TRUNC
					}
					p.args[2] = uint64(fl)
					mutating = fl&(syscall.O_CREAT|syscall.O_TRUNC) != 0
				case sysOpenat:
					p.path = resolve(int64(p.args[0]), peekString(tid, p.args[1]))
					mutating = int(p.args[2])&(syscall.O_CREAT|syscall.O_TRUNC) != 0
				case sysWrite, sysPwrite64, sysWritev, sysPwritev, sysFsync, sysFdatasync, sysFtruncate, sysFchown, sysFchmod, sysFallocate:
					p.path = fds[int(p.args[0])]
					mutating = true
				case sysTruncate, sysUnlink, sysMkdir, sysRmdir, sysChmod, sysChown:
					p.path = resolve(-100, peekString(tid, p.args[0]))
					mutating = true
				case sysRename, sysLink:
					p.path = resolve(-100, peekString(tid, p.args[0]))
					p.path2 = resolve(-100, peekString(tid, p.args[1]))
					mutating = true
				case sysRenameat, sysRenameat2:
					p.path = resolve(int64(p.args[0]), peekString(tid, p.args[1]))
					p.path2 = resolve(int64(p.args[2]), peekString(tid, p.args[3]))
					mutating = true
				case sysUnlinkat, sysMkdirat, sysFchownat, sysFchmodat:
					p.path = resolve(int64(p.args[0]), peekString(tid, p.args[1]))
					mutating = true
				case sysUtimensat:
					if p.args[1] == 0 {
						p.path = fds[int(p.args[0])]
					} else {
						p.path = resolve(int64(p.args[0]), peekString(tid, p.args[1]))
					}
					mutating = true
				case sysClose:
					p.path = fds[int(p.args[0])]
					// forget the descriptor at ENTRY: the kernel may hand the number to another thread's open as soon as
					// this call runs, and that open's exit stop can be reported before this call's exit stop
					delete(fds, int(p.args[0]))
				}
				if mutating && (s.inScope(p.path) || s.inScope(p.path2)) {
					s.mu.Lock()
					s.mutN++
					p.mut = s.mutN
					kill := s.opts.KillAt > 0 && s.mutN == s.opts.KillAt
					if kill {
						s.killed = true
						ev := Event{Seq: seq + 1, MutIdx: p.mut, Tid: tid, Name: names[nr], Path: p.path, Path2: p.path2, FD: int(p.args[0]), Ret: -999}
						s.killEv = &ev
					}
					s.mu.Unlock()
					if kill {
						// the thread is stopped before the call executes; SIGKILL takes the whole thread group down
						_ = syscall.Kill(mainPid, syscall.SIGKILL)
						_ = syscall.PtraceSyscall(tid, 0)
						continue
					}
				}
			} else {
				// ---- exit
				delete(inSys, tid)
				ret := int64(regs.Rax)
				nr := p.nr
				switch nr {
				case sysOpen, sysCreat, sysOpenat:
					if ret >= 0 {
						fds[int(ret)] = p.path
					}
				case sysDup, sysDup2, sysDup3:
					if ret >= 0 {
						if pth, ok := fds[int(p.args[0])]; ok {
							fds[int(ret)] = pth
						}
					}
				case sysFcntl:
					if ret >= 0 && (p.args[1] == 0 || p.args[1] == 1030) { // F_DUPFD, F_DUPFD_CLOEXEC
						if pth, ok := fds[int(p.args[0])]; ok {
							fds[int(ret)] = pth
						}
					}
				}
				if s.opts.Record {
					name, known := names[nr]
					stdoutWrite := nr == sysWrite && p.args[0] == 1
					if known && (s.inScope(p.path) || s.inScope(p.path2) || stdoutWrite) {
						seq++
						ev := Event{Seq: seq, MutIdx: p.mut, Tid: tid, Name: name, Path: p.path, Path2: p.path2, FD: int(p.args[0]), Ret: ret}
						switch nr {
						case sysOpen, sysCreat, sysOpenat:
							ev.Flags = int(p.args[2])
							ev.FD = int(ret)
						case sysWrite:
							ev.Len = int(p.args[2])
							if stdoutWrite {
								ev.Path = "<stdout>"
								ev.Data = string(peekBytes(tid, p.args[1], int(p.args[2])))
							}
						case sysPwrite64:
							ev.Len, ev.Off = int(p.args[2]), int64(p.args[3])
						case sysFtruncate:
							ev.Off = int64(p.args[1])
						case sysUnlinkat:
							ev.Flags = int(p.args[2])
							if ev.Flags&0x200 != 0 {
								ev.Name = "rmdir"
							} else {
								ev.Name = "unlink"
							}
						}
						if ev.Name == "openat" {
							ev.Name = "open"
						}
						s.mu.Lock()
						s.trace = append(s.trace, ev)
						s.mu.Unlock()
					}
				}
			}
			_ = syscall.PtraceSyscall(tid, 0)
		case sig == syscall.SIGTRAP:
			// ptrace event stops (clone/fork/exec) carry the event in the upper bits; nothing to forward
			_ = syscall.PtraceSyscall(tid, 0)
		case sig == syscall.SIGSTOP:
			// new threads start with a SIGSTOP that must not be delivered
			_ = syscall.PtraceSyscall(tid, 0)
		default:
			// genuine signal: deliver it
			_ = syscall.PtraceSyscall(tid, int(sig))
		}
	}
}

// Wait blocks until the child has gone and returns the recorded trace.
func (s *Sup) Wait() []Event {
	<-s.done
	s.mu.Lock()
	defer s.mu.Unlock()
	return s.trace
}

// Done reports whether the child is gone.
func (s *Sup) Done() bool {
	select {
	case <-s.done:
		return true
	default:
		return false
	}
}

// MutCount returns the number of in-scope mutating calls seen so far.
func (s *Sup) MutCount() int {
	s.mu.Lock()
	defer s.mu.Unlock()
	return s.mutN
}

// Killed reports whether the kill point was reached, and the call it pre-empted.
func (s *Sup) Killed() (bool, *Event) {
	s.mu.Lock()
	defer s.mu.Unlock()
	return s.killed, s.killEv
}

// ExitInfo describes how the main thread ended ("exit status N" / "signal X"), empty while it is running.
func (s *Sup) ExitInfo() string {
	s.mu.Lock()
	defer s.mu.Unlock()
	return s.exitInfo
}

// Trace returns a copy of the trace recorded so far.
func (s *Sup) Trace() []Event {
	s.mu.Lock()
	defer s.mu.Unlock()
	return append([]Event(nil), s.trace...)
}

// KillNow terminates the child.
func (s *Sup) KillNow() {
	if s.Cmd != nil && s.Cmd.Process != nil {
		_ = syscall.Kill(s.Cmd.Process.Pid, syscall.SIGKILL)
	}
}

// Signal sends a signal to the child.
func (s *Sup) Signal(sig syscall.Signal) {
	if s.Cmd != nil && s.Cmd.Process != nil {
		_ = syscall.Kill(s.Cmd.Process.Pid, sig)
	}
}
