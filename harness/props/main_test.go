package props

import (
	"os"
	"testing"

	"verifharness/core"
	"verifharness/lsw"
)

func TestMain(m *testing.M) {
	lsw.Quiet()
	os.Exit(m.Run())
}

// TestReplay re-executes the case stored in the file named by VERIF_REPLAY,
// bypassing rapid entirely.
func TestReplay(t *testing.T) {
	registerAll()
	core.Replay(t)
}
