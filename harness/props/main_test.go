package props

import (
	"testing"

	"verifharness/core"
)

// TestReplay re-executes the case stored in the file named by VERIF_REPLAY,
// bypassing rapid entirely.
func TestReplay(t *testing.T) {
	registerAll()
	core.Replay(t)
}
