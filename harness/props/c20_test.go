package props

// C20 — at most one instance holds an unexpired replica lease.
//
// 2-3 s3.Leaser instances share one in-memory S3 store with S3's conditional
// write semantics. Every S3 request parks on a gate; a generated schedule
// releases exactly one parked request at a time, so interleavings are owned by
// the harness at the granularity of individual conditional storage requests.

import (
	"bytes"
	"context"
	"crypto/md5"
	"encoding/hex"
	"encoding/json"
	"fmt"
	"io"
	"os"
	"sync"
	"testing"
	"time"

	"github.com/aws/aws-sdk-go-v2/service/s3"
	"github.com/aws/aws-sdk-go-v2/service/s3/types"
	"github.com/aws/smithy-go"
	"github.com/benbjohnson/litestream"
	lss3 "github.com/benbjohnson/litestream/s3"
	"pgregory.net/rapid"

	"verifharness/core"
)

type c20Op struct {
	K    string `json:"k"`    // acquire | renew | release
	Live bool   `json:"live"` // TTL +1h (true) or -1h (already expired when written)
}

type c20Case struct {
	Progs [][]c20Op `json:"progs"`
	Sched []int     `json:"sched"`
}

// ---- in-memory conditional-write store with a request gate

type memS3 struct {
	mu     sync.Mutex
	body   []byte
	etag   string
	exists bool
	log    []c20Req
	clock  int
}

type c20Req struct {
	Seq     int
	OpIdx   int
	Client  int
	Kind    string // GET | PUT | DELETE
	Cond    string // none | if-none-match | if-match
	OK      bool
	Err     string
	Before  *litestream.Lease // stored record before the request (nil if absent)
	After   *litestream.Lease
	BeforeE string
	AfterE  string
	Changed bool
}

type gatedClient struct {
	store  *memS3
	id     int
	curOp  int
	events chan c20Event
	gate   chan struct{}
}

type c20Event struct {
	client int
	kind   string // park | done
}

func (s *memS3) decode() *litestream.Lease {
	if !s.exists {
		return nil
	}
	var l litestream.Lease
	_ = json.Unmarshal(s.body, &l)
	l.ETag = s.etag
	return &l
}

func (g *gatedClient) park() {
	g.events <- c20Event{g.id, "park"}
	<-g.gate
}

func (g *gatedClient) GetObject(ctx context.Context, in *s3.GetObjectInput, _ ...func(*s3.Options)) (*s3.GetObjectOutput, error) {
	g.park()
	s := g.store
	s.mu.Lock()
	defer s.mu.Unlock()
	s.clock++
	r := c20Req{Seq: s.clock, OpIdx: g.curOp, Client: g.id, Kind: "GET", Cond: "none", Before: s.decode(), BeforeE: s.etag}
	r.After, r.AfterE = r.Before, r.BeforeE
	if !s.exists {
		r.Err = "NoSuchKey"
		s.log = append(s.log, r)
		return nil, &types.NoSuchKey{}
	}
	r.OK = true
	s.log = append(s.log, r)
	et := s.etag
	return &s3.GetObjectOutput{Body: io.NopCloser(bytes.NewReader(append([]byte(nil), s.body...))), ETag: &et}, nil
}

func (g *gatedClient) PutObject(ctx context.Context, in *s3.PutObjectInput, _ ...func(*s3.Options)) (*s3.PutObjectOutput, error) {
	data, _ := io.ReadAll(in.Body)
	g.park()
	s := g.store
	s.mu.Lock()
	defer s.mu.Unlock()
	s.clock++
	r := c20Req{Seq: s.clock, OpIdx: g.curOp, Client: g.id, Kind: "PUT", Cond: "none", Before: s.decode(), BeforeE: s.etag}
	fail := func(code string) (*s3.PutObjectOutput, error) {
		r.Err = code
		r.After, r.AfterE = r.Before, r.BeforeE
		s.log = append(s.log, r)
		return nil, &smithy.GenericAPIError{Code: code, Message: code}
	}
	if in.IfNoneMatch != nil {
		r.Cond = "if-none-match"
		if s.exists {
			return fail("PreconditionFailed")
		}
	}
	if in.IfMatch != nil {
		r.Cond = "if-match"
		if !s.exists {
			return fail("NoSuchKey")
		}
		if *in.IfMatch != s.etag {
			return fail("PreconditionFailed")
		}
	}
	sum := md5.Sum(data)
	s.body, s.exists = data, true
	s.etag = `"` + hex.EncodeToString(sum[:]) + `"`
	r.OK, r.Changed = true, true
	r.After, r.AfterE = s.decode(), s.etag
	s.log = append(s.log, r)
	et := s.etag
	return &s3.PutObjectOutput{ETag: &et}, nil
}

func (g *gatedClient) DeleteObject(ctx context.Context, in *s3.DeleteObjectInput, _ ...func(*s3.Options)) (*s3.DeleteObjectOutput, error) {
	g.park()
	s := g.store
	s.mu.Lock()
	defer s.mu.Unlock()
	s.clock++
	r := c20Req{Seq: s.clock, OpIdx: g.curOp, Client: g.id, Kind: "DELETE", Cond: "none", Before: s.decode(), BeforeE: s.etag}
	fail := func(code string) (*s3.DeleteObjectOutput, error) {
		r.Err = code
		r.After, r.AfterE = r.Before, r.BeforeE
		s.log = append(s.log, r)
		return nil, &smithy.GenericAPIError{Code: code, Message: code}
	}
	if in.IfMatch != nil {
		r.Cond = "if-match"
		if !s.exists {
			return fail("NoSuchKey")
		}
		if *in.IfMatch != s.etag {
			return fail("PreconditionFailed")
		}
	}
	if s.exists {
		r.Changed = true
	}
	s.exists, s.body, s.etag = false, nil, ""
	r.OK = true
	s.log = append(s.log, r)
	return &s3.DeleteObjectOutput{}, nil
}

// ---- execution

type c20OpResult struct {
	Client   int
	Idx      int
	Op       c20Op
	Skipped  bool
	Err      error
	Lease    *litestream.Lease
	ReqFrom  int // index into store.log of the first request issued by this op
	ReqTo    int
	UsedETag string
}

type c20Run struct {
	log      []c20Req
	ops      []c20OpResult // in completion order
	branches []int         // number of parked clients at each scheduling decision
}

func runC20(c c20Case) c20Run {
	store := &memS3{}
	n := len(c.Progs)
	events := make(chan c20Event)
	clients := make([]*gatedClient, n)
	results := make(chan c20OpResult, 64)
	for i := 0; i < n; i++ {
		clients[i] = &gatedClient{store: store, id: i, events: events, gate: make(chan struct{})}
	}
	for i := 0; i < n; i++ {
		i := i
		go func() {
			l := lss3.NewLeaser()
			l.SetLogger(discardLogger)
			l.SetClient(clients[i])
			l.Bucket, l.Owner = "b", fmt.Sprintf("client-%d", i)
			var last *litestream.Lease
			for j, op := range c.Progs[i] {
				clients[i].curOp = j
				if op.Live {
					l.TTL = time.Hour
				} else {
					l.TTL = -time.Hour
				}
				store.mu.Lock()
				from := len(store.log)
				store.mu.Unlock()
				res := c20OpResult{Client: i, Op: op, ReqFrom: from, Idx: j}
				switch op.K {
				case "acquire":
					res.Lease, res.Err = l.AcquireLease(context.Background())
					if res.Err == nil {
						last = res.Lease
					}
				case "renew":
					if last == nil {
						res.Skipped = true
					} else {
						res.UsedETag = last.ETag
						res.Lease, res.Err = l.RenewLease(context.Background(), last)
						if res.Err == nil {
							last = res.Lease
						}
					}
				case "release":
					if last == nil {
						res.Skipped = true
					} else {
						res.UsedETag = last.ETag
						res.Err = l.ReleaseLease(context.Background(), last)
					}
				}
				store.mu.Lock()
				res.ReqTo = len(store.log)
				store.mu.Unlock()
				results <- res
			}
			events <- c20Event{i, "done"}
		}()
	}
	var run c20Run
	parked := map[int]bool{}
	done := 0
	// initially every client runs until its first park or done
	for waiting := n; waiting > 0; waiting-- {
		ev := <-events
		if ev.kind == "park" {
			parked[ev.client] = true
		} else {
			done++
		}
	}
	si := 0
	for done < n {
		var ids []int
		for i := 0; i < n; i++ {
			if parked[i] {
				ids = append(ids, i)
			}
		}
		if len(ids) == 0 {
			panic("harness: no parked client but not all done")
		}
		run.branches = append(run.branches, len(ids))
		choice := 0
		if si < len(c.Sched) {
			choice = c.Sched[si] % len(ids)
		}
		si++
		id := ids[choice]
		delete(parked, id)
		clients[id].gate <- struct{}{}
		ev := <-events // only the released client can make progress
		if ev.client != id {
			panic("harness: event from a client that was not released")
		}
		if ev.kind == "park" {
			parked[id] = true
		} else {
			done++
		}
	}
	close(results)
	for r := range results {
		run.ops = append(run.ops, r)
	}
	run.log = store.log
	return run
}

func c20Expired(l *litestream.Lease) bool { return l == nil || time.Now().After(l.ExpiresAt) }

func checkC20(c c20Case, run c20Run) (*core.Violation, bool) {
	interleaved := false
	// Map every op to the requests it issued (requests are tagged with the op index by the gate).
	byClientOps := map[int][]c20OpResult{}
	for _, op := range run.ops {
		byClientOps[op.Client] = append(byClientOps[op.Client], op)
	}
	opReqs := map[int][][]c20Req{} // client -> per op (in program order) -> requests
	for cl, ops := range byClientOps {
		for _, op := range ops {
			var rs []c20Req
			for _, r := range run.log {
				if r.Client == cl && r.OpIdx == op.Idx {
					rs = append(rs, r)
				}
			}
			opReqs[cl] = append(opReqs[cl], rs)
		}
	}
	// interleaving classification: some acquire's GET and PUT have another client's request between them,
	// or a renew/release request of a client lands after another client's successful PUT (takeover race).
	for cl, ops := range opReqs {
		for _, rs := range ops {
			if len(rs) >= 2 {
				for _, r := range run.log {
					if r.Client != cl && r.Seq > rs[0].Seq && r.Seq < rs[1].Seq {
						interleaved = true
					}
				}
			}
		}
	}

	fail := func(oracle, format string, a ...any) (*core.Violation, bool) {
		return &core.Violation{Oracle: oracle, Msg: fmt.Sprintf(format, a...) + " | " + fmtC20(run)}, interleaved
	}

	// M2 over the store log: a successful PUT that changes the owner (or creates the record) must not replace a live record
	for _, r := range run.log {
		if r.Kind != "PUT" || !r.OK {
			continue
		}
		if r.Before != nil && !c20Expired(r.Before) && r.After != nil && r.Before.Owner != r.After.Owner {
			return fail("m2-takeover-of-live-lease", "request #%d by client %d replaced the live lease of %s", r.Seq, r.Client, r.Before.Owner)
		}
	}
	// M1: replay op completions in linearisation order of their last request and track believed holders
	type holder struct {
		lease *litestream.Lease
	}
	believed := map[int]*litestream.Lease{}
	type done struct {
		seq int
		cl  int
		idx int
	}
	var order []done
	for cl, ops := range byClientOps {
		for i := range ops {
			rs := opReqs[cl][i]
			seq := 0
			if len(rs) > 0 {
				seq = rs[len(rs)-1].Seq
			}
			order = append(order, done{seq, cl, i})
		}
	}
	for i := 0; i < len(order); i++ {
		for j := i + 1; j < len(order); j++ {
			if order[j].seq < order[i].seq {
				order[i], order[j] = order[j], order[i]
			}
		}
	}
	var gens []struct {
		gen     int64
		cl      int
		seq     int
		afterRelease bool
	}
	lastReleaseSeq := -1
	for _, d := range order {
		op := byClientOps[d.cl][d.idx]
		if op.Skipped {
			continue
		}
		rs := opReqs[d.cl][d.idx]
		switch op.Op.K {
		case "acquire":
			if op.Err == nil {
				believed[d.cl] = op.Lease
				// the successful PUT
				var put *c20Req
				for k := range rs {
					if rs[k].Kind == "PUT" && rs[k].OK {
						put = &rs[k]
					}
				}
				if put == nil {
					return fail("acquire-without-write", "client %d acquire succeeded without a successful conditional write", d.cl)
				}
				if put.Before != nil && !c20Expired(put.Before) {
					return fail("m2-acquire-over-live", "client %d acquired while the stored lease of %s was live", d.cl, put.Before.Owner)
				}
				gens = append(gens, struct {
					gen          int64
					cl           int
					seq          int
					afterRelease bool
				}{op.Lease.Generation, d.cl, put.Seq, put.Before == nil && lastReleaseSeq >= 0})
			}
		case "renew", "release":
			if len(rs) == 0 {
				continue // the op issued no storage request (e.g. rejected locally): nothing can have changed
			}
			r := rs[len(rs)-1] // the write
			superseded := r.BeforeE != op.UsedETag
			if superseded {
				if op.Err == nil {
					return fail("m3-superseded-op-succeeded", "client %d %s succeeded with a lease that had been superseded (stored etag %q, used %q)", d.cl, op.Op.K, r.BeforeE, op.UsedETag)
				}
				changed := false
				for _, q := range rs {
					changed = changed || q.Changed
				}
				if changed {
					return fail("m3-superseded-op-changed-store", "client %d %s with a superseded lease changed the stored record", d.cl, op.Op.K)
				}
				delete(believed, d.cl)
			} else {
				if op.Err != nil {
					continue // not demanded by the property: the holder keeps believing its old (still stored) lease
				}
				if op.Op.K == "renew" {
					believed[d.cl] = op.Lease
				} else {
					delete(believed, d.cl)
					lastReleaseSeq = r.Seq
				}
			}
		}
		live := 0
		var who []int
		for cl, l := range believed {
			if !c20Expired(l) {
				live++
				who = append(who, cl)
			}
		}
		if live > 1 {
			return fail("m1-two-live-holders", "clients %v both hold an unexpired lease", who)
		}
	}
	// M4: generations strictly increase from one successful acquire to the next (in write order)
	for i := 1; i < len(gens); i++ {
		if gens[i].gen <= gens[i-1].gen {
			v, nt := fail("m4-generation-not-increasing", "acquire by client %d got generation %d after client %d had generation %d", gens[i].cl, gens[i].gen, gens[i-1].cl, gens[i-1].gen)
			if gens[i].afterRelease {
				// shape: the record had been deleted by a release before this acquire wrote (no stored generation to increment)
				v.Shapes = append(v.Shapes, "release-resets-generation")
			}
			return v, nt
		}
	}
	return nil, interleaved
}


func fmtC20(run c20Run) string {
	s := "requests:"
	for _, r := range run.log {
		ok := "ok"
		if !r.OK {
			ok = r.Err
		}
		s += fmt.Sprintf(" #%d c%d %s/%s=%s", r.Seq, r.Client, r.Kind, r.Cond, ok)
	}
	s += " ops:"
	for _, o := range run.ops {
		if o.Skipped {
			continue
		}
		g := int64(0)
		if o.Lease != nil {
			g = o.Lease.Generation
		}
		s += fmt.Sprintf(" c%d %s(live=%v)->gen%d err=%v;", o.Client, o.Op.K, o.Op.Live, g, o.Err)
	}
	return s
}

func execC20(c c20Case) core.Result {
	run := runC20(c)
	v, inter := checkC20(c, run)
	res := core.Result{Violation: v, NonTrivial: inter, Evals: 1}
	if inter {
		res.Labels = append(res.Labels, "interleaved-read-write")
	}
	takeover := false
	for _, r := range run.log {
		if r.Kind == "PUT" && r.OK && r.Before != nil && r.After != nil && r.Before.Owner != r.After.Owner {
			takeover = true
		}
	}
	if takeover {
		res.Labels = append(res.Labels, "takeover-of-expired")
	}
	res.Labels = append(res.Labels, fmt.Sprintf("clients:%d", len(c.Progs)))
	return res
}

func genC20(t *rapid.T) c20Case {
	n := rapid.IntRange(2, 3).Draw(t, "clients")
	var c c20Case
	for i := 0; i < n; i++ {
		ln := rapid.IntRange(2, 6).Draw(t, "len")
		var p []c20Op
		has := false
		for j := 0; j < ln; j++ {
			ks := []string{"acquire", "acquire"}
			if has {
				ks = append(ks, "renew", "renew", "release")
			}
			k := rapid.SampledFrom(ks).Draw(t, "op")
			if k == "acquire" {
				has = true
			}
			p = append(p, c20Op{K: k, Live: rapid.Bool().Draw(t, "live")})
		}
		c.Progs = append(c.Progs, p)
	}
	c.Sched = rapid.SliceOfN(rapid.IntRange(0, 5), 64, 64).Draw(t, "sched")
	return c
}

func TestProp_C20(t *testing.T) {
	core.Check(t, "C20", genC20, execC20)
}

// TestEnum_C20 enumerates every interleaving of 2 clients x all programs of
// length <= 2 over {acquire,renew,release} x {live,expired}.
func TestEnum_C20(t *testing.T) {
	if os.Getenv("VERIF_ENUM") == "" {
		t.Skip("enumeration runs only when VERIF_ENUM is set")
	}
	core.Register("C20", execC20)
	defer core.FlushStats()
	var atoms []c20Op
	for _, k := range []string{"acquire", "renew", "release"} {
		for _, l := range []bool{true, false} {
			atoms = append(atoms, c20Op{K: k, Live: l})
		}
	}
	maxLen := core.EnvInt("VERIF_ENUM_LEN", 2)
	var progs [][]c20Op
	var build func(p []c20Op)
	build = func(p []c20Op) {
		if len(p) > 0 {
			progs = append(progs, append([]c20Op(nil), p...))
		}
		if len(p) == maxLen {
			return
		}
		for _, a := range atoms {
			if len(p) == 0 && a.K != "acquire" {
				continue // renew/release without a lease are skipped ops
			}
			build(append(p, a))
		}
	}
	build(nil)
	shard, shards := core.EnvInt("VERIF_SHARD", 0), core.EnvInt("VERIF_SHARDS", 1)
	evals, nontrivial, idx := 0, 0, 0
	var sample any
	for _, p0 := range progs {
		for _, p1 := range progs {
			idx++
			if idx%shards != shard {
				continue
			}
			// DFS over schedules by odometer on branch choices
			sched := []int{}
			for {
				c := c20Case{Progs: [][]c20Op{p0, p1}, Sched: append([]int(nil), sched...)}
				run := runC20(c)
				v, inter := checkC20(c, run)
				evals++
				if inter {
					nontrivial++
				}
				if evals%5000 == 1 {
					sample = c
				}
				if v != nil {
					if !core.RunOne(t, "C20", c, execC20) {
						return
					}
				}
				// next schedule: extend sched to full length with zeros, then increment from the end
				full := make([]int, len(run.branches))
				copy(full, sched)
				i := len(full) - 1
				for i >= 0 {
					if full[i]+1 < run.branches[i] {
						full[i]++
						break
					}
					i--
				}
				if i < 0 {
					break
				}
				sched = full[:i+1]
			}
		}
	}
	core.Record("C20", sample, core.Result{Key: fmt.Sprintf("enum-shard-%d", shard), NonTrivial: true, Evals: evals,
		Notes: map[string]int{"enum_evals": evals, "enum_nontrivial_distinct": nontrivial, "enum_programs": len(progs)},
		Sample: map[string]any{"enumeration": fmt.Sprintf("2 clients x %d programs (len<=%d) each, every interleaving; shard %d/%d", len(progs), maxLen, shard, shards), "example": sample}})
}
