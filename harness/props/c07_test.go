package props

// C07 — retention never deletes what the latest restore needs.

import (
	"fmt"
	"sort"
	"testing"

	"github.com/superfly/ltx"
	"pgregory.net/rapid"

	"verifharness/core"
	"verifharness/lsw"
)

func genC07(t *rapid.T) lsw.Case { return genRepHist(t, core.Thorough(), true, false) }

func execC07(c lsw.Case) (res core.Result) {
	w, err := lsw.NewWorld(c.Cfg, core.WorkDir("c07"))
	if err != nil {
		panic(fmt.Sprintf("harness: new world: %v", err))
	}
	defer w.Cleanup()
	if err := w.Attach(); err != nil {
		panic(fmt.Sprintf("harness: attach: %v", err))
	}
	res.Key = core.HashStrings(c.Abstract())
	deletedTotal, passes := 0, 0
	snapshotEver := false
	defer func() {
		c01Labels(w, &res)
		if deletedTotal > 0 {
			res.Labels = append(res.Labels, "retention-deleted-files")
		}
		if c.Cfg.NoRetention {
			res.Labels = append(res.Labels, "retention-disabled")
		}
		res.NonTrivial = deletedTotal > 0
		if res.Notes == nil {
			res.Notes = map[string]int{}
		}
		res.Notes["retention_passes"] += passes
		res.Notes["files_deleted"] += deletedTotal
	}()
	for i, o := range c.Ops {
		if o.K == "age" {
			ageFiles(w.ReplicaDir, o.N, o.A)
			continue
		}
		before := lsw.ListLTX(w.ReplicaDir)
		for _, f := range before {
			if f.Level == 9 {
				snapshotEver = true
			}
		}
		var opErr error
		switch {
		case o.K == "rettxid":
			// called the way Store.EnforceSnapshotRetention calls it: levels >= 1, floor = MaxTXID of an existing snapshot (or 0)
			var snaps []ltx.TXID
			for _, f := range before {
				if f.Level == 9 {
					snaps = append(snaps, f.Max)
				}
			}
			lvl := o.L
			if lvl == 0 {
				lvl = 1
			}
			var floor ltx.TXID
			if len(snaps) > 0 && o.N%(len(snaps)+1) > 0 {
				floor = snaps[o.N%(len(snaps)+1)-1]
			}
			opErr = w.DB.EnforceRetentionByTXID(w.Ctx(), lvl, floor)
		case isRetentionOp(o.K):
			opErr = runRetention(w, o)
		case lsw.IsLSOp(o.K):
			sr := w.LSStep(o)
			opErr = sr.Err
			w.ArchiveL0()
		default:
			w.AppStep(o)
			continue
		}
		_ = opErr
		mayDelete := isRetentionOp(o.K) || (o.K == "compact" && o.L == 1) || (o.K == "compactdb" && o.L == 1)
		if !mayDelete {
			continue
		}
		passes++
		after := lsw.ListLTX(w.ReplicaDir)
		ak := fileSetKey(after)
		deleted := 0
		for _, f := range before {
			if !ak[fmt.Sprintf("%d/%d-%d", f.Level, f.Min, f.Max)] {
				deleted++
			}
		}
		deletedTotal += deleted
		res.Evals++
		fail := func(oracle, format string, a ...any) core.Result {
			res.Violation = &core.Violation{Oracle: oracle, Msg: fmt.Sprintf("after step %d (%s, err=%v): ", i, o, opErr) + fmt.Sprintf(format, a...)}
			return res
		}
		if c.Cfg.NoRetention && deleted > 0 {
			return fail("deleted-while-disabled", "%d remote files disappeared although RetentionEnabled=false", deleted)
		}
		lv := levelFiles(after)
		if snapshotEver && len(lv[9]) == 0 {
			return fail("no-snapshot-left", "no snapshot remains although one existed")
		}
		// surviving level-0 files form one contiguous run ending at the newest
		var maxBefore ltx.TXID
		for _, f := range before {
			if f.Level == 0 && f.Max > maxBefore {
				maxBefore = f.Max
			}
		}
		l0 := lv[0]
		sort.Slice(l0, func(a, b int) bool { return l0[a].Min < l0[b].Min })
		for k := 1; k < len(l0); k++ {
			if l0[k].Min != l0[k-1].Max+1 {
				return fail("l0-gap", "surviving level-0 files have a gap between %d and %d", l0[k-1].Max, l0[k].Min)
			}
		}
		if maxBefore > 0 && (len(l0) == 0 || l0[len(l0)-1].Max != maxBefore) {
			return fail("l0-newest-deleted", "newest level-0 file %d did not survive", maxBefore)
		}
		// a plan to the latest TXID must still exist (brute force over the listing)
		var maxAll ltx.TXID
		for _, f := range before {
			if f.Max > maxAll {
				maxAll = f.Max
			}
		}
		if got := bruteLatest(after); got < int(maxAll) {
			return fail("latest-unreachable", "latest TXID %d is no longer reachable by any chain of the remaining files (furthest reachable: %d)", maxAll, got)
		}
		// the latest state restores and equals the source (fresh acknowledged sync first)
		if w.AnyTx() {
			continue // R1 needs a quiescent committed state to compare logical fields; page compare works, but keep the premise simple
		}
		if sr := w.LSStep(lsw.Op{K: "syncwait"}); sr.Acked {
			w.ArchiveL0()
			if m := w.CheckR1(); m != nil {
				return fail(m.Oracle, "latest restore after the retention pass: %s", m.Msg)
			}
		}
	}
	return res
}

func TestProp_C07(t *testing.T) {
	core.Check(t, "C07", genC07, execC07)
}
