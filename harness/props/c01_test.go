package props

// C01 — an acknowledged sync restores exactly the source database.

import (
	"fmt"
	"testing"

	"pgregory.net/rapid"

	"verifharness/core"
	"verifharness/lsw"
)

// genLSOpC01 draws one litestream op for C01 histories.
func genLSOpC01(t *rapid.T, cfg lsw.Config) lsw.Op {
	k := rapid.SampledFrom([]string{"sync", "sync", "sync", "rsync", "rsync", "syncwait", "syncwait", "syncwait", "syncwait", "lsckpt", "lsckpt", "lsckpt", "snapshot", "compact"}).Draw(t, "lsop")
	switch k {
	case "lsckpt":
		return lsw.Op{K: k, M: rapid.SampledFrom([]string{"PASSIVE", "PASSIVE", "FULL", "RESTART", "TRUNCATE"}).Draw(t, "mode")}
	case "compact":
		return lsw.Op{K: k, L: rapid.IntRange(1, cfg.Levels).Draw(t, "level")}
	case "syncwait":
		if rapid.IntRange(0, 5).Draw(t, "viaStore") == 0 {
			return lsw.Op{K: k, M: "store"}
		}
	}
	return lsw.Op{K: k}
}

func genC01(t *rapid.T) lsw.Case {
	cfg := lsw.GenConfig(t, core.Thorough())
	cfg.ViaServer = rapid.IntRange(0, 7).Draw(t, "viaServer") == 0
	maxSteps := 40
	if core.Thorough() {
		maxSteps = 80
	}
	n := rapid.IntRange(8, maxSteps).Draw(t, "steps")
	m := lsw.NewGenModel(cfg)
	var ops []lsw.Op
	for i := 0; i < n; i++ {
		if rapid.IntRange(0, 9).Draw(t, "which") < 6 {
			ops = append(ops, m.AppOp(t))
		} else {
			ops = append(ops, genLSOpC01(t, cfg))
		}
	}
	if rapid.Bool().Draw(t, "endClose") {
		ops = append(ops, lsw.Op{K: "close"})
	} else {
		ops = append(ops, lsw.Op{K: "syncwait"})
	}
	return lsw.Case{Cfg: cfg, Ops: ops}
}

func c01Labels(w *lsw.World, res *core.Result) {
	o := w.Obs
	add := func(c bool, l string) {
		if c {
			res.Labels = append(res.Labels, l)
		}
	}
	add(o.WALRestarts > 0, "wal-restart")
	add(o.ShrinkThenGrow, "shrink-then-grow")
	add(o.AppCkptWhileOpen > 0, "app-ckpt-while-running")
	add(o.AckInOpenTx > 0, "ack-in-open-tx")
	add(o.AckWithSpill > 0, "ack-with-spilled-frames")
	add(o.SyncWithSpill > 0, "sync-with-spilled-frames")
	add(o.RollbackSpilled > 0, "rollback-after-spill")
	add(o.ChunkedSync > 0, "chunked-sync")
	add(o.Acks == 0, "no-ack")
	add(o.AckErrors > 0, "ack-error")
	add(w.Cfg.ViaServer, "via-server")
	res.Labels = append(res.Labels, fmt.Sprintf("ps:%d", w.Cfg.PageSize))
	res.Notes = map[string]int{"acks": o.Acks, "ack_errors": o.AckErrors, "commits": o.Commits, "app_skipped": o.AppSkipped}
	for k, v := range o.LSErrors {
		res.Notes["lserr:"+k] += v
	}
	for k, v := range o.AppErrors {
		res.Notes["apperr:"+k] += v
	}
}

func execC01(c lsw.Case) (res core.Result) {
	w, err := lsw.NewWorld(c.Cfg, core.WorkDir("c01"))
	if err != nil {
		panic(fmt.Sprintf("harness: new world: %v", err))
	}
	defer w.Cleanup()
	if err := w.Attach(); err != nil {
		panic(fmt.Sprintf("harness: attach: %v", err))
	}
	res.Key = core.HashStrings(c.Abstract())
	nontrivial := false
	defer func() { c01Labels(w, &res); res.NonTrivial = nontrivial }()
	initialised := false // has any call that initialises the DB object (Sync, SyncAndWait, Checkpoint) returned nil?
	for i, o := range c.Ops {
		if !lsw.IsLSOp(o.K) {
			w.AppStep(o)
			continue
		}
		ob := w.Obs
		closeBeforeInit := o.K == "close" && !initialised
		sr := w.LSStep(o)
		if (o.K == "sync" || o.K == "syncwait" || o.K == "lsckpt") && sr.Err == nil {
			initialised = true
		}
		if !sr.Acked {
			continue
		}
		res.Evals++
		// the ack is non-trivial if one of the interesting things happened since the previous ack
		if ob.WALRestartSinceAck || w.Obs.WALRestartSinceAck || w.Obs.ShrinkThenGrow || w.Obs.AppCkptWhileOpen > 0 ||
			w.Obs.AckInOpenTx > 0 || w.Obs.ChunkedSync > 0 || w.Obs.AckWithSpill > 0 {
			nontrivial = true
		}
		w.Obs.WALRestartSinceAck = false
		if m := w.CheckR1(); m != nil {
			res.Violation = &core.Violation{Oracle: m.Oracle, Msg: fmt.Sprintf("after step %d (%s): %s", i, o, m.Msg)}
			if closeBeforeInit {
				// shape: Close acknowledged on a DB object on which no initialising call was ever made
				res.Violation.Shapes = append(res.Violation.Shapes, "close-before-init")
			}
			return res
		}
		if w.DB != nil {
			pos, err := w.DB.Pos()
			if err == nil && pos.TXID != lsw.MaxL0(w.ReplicaDir) {
				res.Violation = &core.Violation{Oracle: "ack-pos", Msg: fmt.Sprintf("after step %d (%s): db position %d but replica max L0 TXID %d", i, o, pos.TXID, lsw.MaxL0(w.ReplicaDir))}
				return res
			}
		}
	}
	return res
}

func TestProp_C01(t *testing.T) {
	core.Check(t, "C01", genC01, execC01)
}
