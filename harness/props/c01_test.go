package props

// C01 — an acknowledged sync restores exactly the source database.

import (
	"fmt"
	"os"
	"path/filepath"
	"testing"

	"pgregory.net/rapid"

	"verifharness/core"
	"verifharness/lsw"
)

// genLSOpC01 draws one litestream op for C01 histories.
func genLSOpC01(t *rapid.T, cfg lsw.Config) lsw.Op {
	k := rapid.SampledFrom([]string{"sync", "sync", "sync", "rsync", "rsync", "syncwait", "syncwait", "syncwait", "syncwait", "lsckpt", "lsckpt", "lsckpt", "snapshot", "compact"}).Draw(t, "lsop")
	switch k {
	case "lsckpt":
		return lsw.Op{K: k, M: rapid.SampledFrom([]string{"PASSIVE", "PASSIVE", "FULL", "RESTART", "TRUNCATE"}).Draw(t, "mode")}
	case "compact":
		return lsw.Op{K: k, L: rapid.IntRange(1, cfg.Levels).Draw(t, "level")}
	case "syncwait":
		if rapid.IntRange(0, 5).Draw(t, "viaStore") == 0 {
			return lsw.Op{K: k, M: "store"}
		}
	}
	return lsw.Op{K: k}
}

func genC01(t *rapid.T) lsw.Case {
	cfg := lsw.GenConfig(t, core.Thorough())
	cfg.ViaServer = rapid.IntRange(0, 4).Draw(t, "viaServer") == 0
	maxSteps := 40
	if core.Thorough() {
		maxSteps = 80
	}
	n := rapid.IntRange(8, maxSteps).Draw(t, "steps")
	m := lsw.NewGenModel(cfg)
	var ops []lsw.Op
	for i := 0; i < n; i++ {
		if rapid.IntRange(0, 9).Draw(t, "which") < 6 {
			ops = append(ops, m.AppOp(t))
		} else {
			ops = append(ops, genLSOpC01(t, cfg))
		}
	}
	if rapid.Bool().Draw(t, "endClose") {
		ops = append(ops, lsw.Op{K: "close"})
	} else {
		ops = append(ops, lsw.Op{K: "syncwait"})
	}
	return lsw.Case{Cfg: cfg, Ops: ops}
}

func c01Labels(w *lsw.World, res *core.Result) {
	o := w.Obs
	add := func(c bool, l string) {
		if c {
			res.Labels = append(res.Labels, l)
		}
	}
	add(o.WALRestarts > 0, "wal-restart")
	add(o.ShrinkThenGrow, "shrink-then-grow")
	add(o.AppCkptWhileOpen > 0, "app-ckpt-while-running")
	add(o.AckInOpenTx > 0, "ack-in-open-tx")
	add(o.AckWithSpill > 0, "ack-with-spilled-frames")
	add(o.SyncWithSpill > 0, "sync-with-spilled-frames")
	add(o.RollbackSpilled > 0, "rollback-after-spill")
	add(o.ChunkedSync > 0, "chunked-sync")
	add(o.Acks == 0, "no-ack")
	add(o.AckErrors > 0, "ack-error")
	add(w.Cfg.ViaServer, "via-server")
	add(o.HookCommits > 0, "interleaved-commit")
	add(o.HookLockHeld > 0, "interleaved-lock-held")
	for _, ph := range lsw.Phases {
		if w.PhasesFired[ph] > 0 {
			res.Labels = append(res.Labels, "at:"+ph)
		}
	}
	res.Labels = append(res.Labels, fmt.Sprintf("ps:%d", w.Cfg.PageSize))
	res.Notes = map[string]int{"acks": o.Acks, "ack_errors": o.AckErrors, "commits": o.Commits, "app_skipped": o.AppSkipped,
		"hook_fired": o.HookFired, "hook_late": o.HookLate, "hook_commits": o.HookCommits, "hook_lock_held": o.HookLockHeld}
	for k, v := range o.LSErrors {
		res.Notes["lserr:"+k] += v
	}
	for k, v := range o.AppErrors {
		res.Notes["apperr:"+k] += v
	}
}

func execC01(c lsw.Case) (res core.Result) {
	w, err := lsw.NewWorld(c.Cfg, core.WorkDir("c01"))
	if err != nil {
		panic(fmt.Sprintf("harness: new world: %v", err))
	}
	defer w.Cleanup()
	if err := w.Attach(); err != nil {
		panic(fmt.Sprintf("harness: attach: %v", err))
	}
	res.Key = core.HashStrings(c.Abstract())
	nontrivial := false
	defer func() { c01Labels(w, &res); res.NonTrivial = nontrivial }()
	initialised := false // has any call that initialises the DB object (Sync, SyncAndWait, Checkpoint) returned nil?
	for i, o := range c.Ops {
		if !lsw.IsLSOp(o.K) {
			r := w.AppStep(o)
			if os.Getenv("VERIF_TRACE") != "" {
				fmt.Printf("TRACE step %d %-28s err=%v skipped=%v v=%d %s\n", i, o.String(), r.Err, r.Skipped, w.LastV, w.TraceState())
			}
			continue
		}
		ob := w.Obs
		closeBeforeInit := o.K == "close" && !initialised
		vStart := w.LastV
		sr := w.LSStep(o)
		if os.Getenv("VERIF_TRACE") != "" {
			fmt.Printf("TRACE step %d %-28s err=%v acked=%v v=%d %s\n", i, o.String(), sr.Err, sr.Acked, w.LastV, w.TraceState())
		}
		if w.Obs.HookCommits > ob.HookCommits || w.Obs.HookLockHeld > ob.HookLockHeld {
			nontrivial = true // an application transaction committed, or took the write lock, between two of litestream's own steps
		}
		if (o.K == "sync" || o.K == "syncwait" || o.K == "lsckpt") && sr.Err == nil {
			initialised = true
		}
		if !sr.Acked {
			continue
		}
		res.Evals++
		// the ack is non-trivial if one of the interesting things happened since the previous ack
		if ob.WALRestartSinceAck || w.Obs.WALRestartSinceAck || w.Obs.ShrinkThenGrow || w.Obs.AppCkptWhileOpen > 0 ||
			w.Obs.AckInOpenTx > 0 || w.Obs.ChunkedSync > 0 || w.Obs.AckWithSpill > 0 {
			nontrivial = true
		}
		w.Obs.WALRestartSinceAck = false
		if w.OpCommits > 0 || w.OpLateCommits > 0 {
			// Application transactions committed while this acknowledging call was running (interleaved cases only).
			// The acknowledgement covers everything committed before the call started and may or may not cover what was
			// committed during it: the restore must be one of the committed states of that window.
			if m := c01CheckWindow(w, vStart); m != nil {
				res.Violation = &core.Violation{Oracle: m.Oracle, Msg: fmt.Sprintf("after step %d (%s): %s", i, o, m.Msg)}
				if closeBeforeInit {
					res.Violation.Shapes = append(res.Violation.Shapes, "close-before-init")
				}
				return res
			}
			continue
		}
		if m := w.CheckR1(); m != nil {
			res.Violation = &core.Violation{Oracle: m.Oracle, Msg: fmt.Sprintf("after step %d (%s): %s", i, o, m.Msg)}
			if closeBeforeInit {
				// shape: Close acknowledged on a DB object on which no initialising call was ever made
				res.Violation.Shapes = append(res.Violation.Shapes, "close-before-init")
			}
			return res
		}
		if w.DB != nil {
			pos, err := w.DB.Pos()
			if err == nil && pos.TXID != lsw.MaxL0(w.ReplicaDir) {
				res.Violation = &core.Violation{Oracle: "ack-pos", Msg: fmt.Sprintf("after step %d (%s): db position %d but replica max L0 TXID %d", i, o, pos.TXID, lsw.MaxL0(w.ReplicaDir))}
				return res
			}
		}
	}
	return res
}

// c01CheckWindow restores the latest state and requires a usable database whose logical state is a committed state
// with version in [vStart, current].
func c01CheckWindow(w *lsw.World, vStart int64) *lsw.Mismatch {
	out := filepath.Join(w.Dir, "window.db")
	defer func() {
		os.Remove(out)
		os.Remove(out + "-wal")
		os.Remove(out + "-shm")
	}()
	if err := lsw.RestoreTo(w.Ctx(), w.ReplicaDir, out, 0, lsw.ZeroTime); err != nil {
		return &lsw.Mismatch{Oracle: "r1-restore-error", Msg: fmt.Sprintf("restore failed after an acknowledged sync: %v", err)}
	}
	v, d, ic, err := lsw.InspectFile(w.Ctx(), out)
	if err != nil || ic != "ok" {
		return &lsw.Mismatch{Oracle: "r1-integrity", Msg: fmt.Sprintf("integrity_check: %q err=%v", ic, err)}
	}
	if v < vStart || v > w.LastV {
		return &lsw.Mismatch{Oracle: "r1-window", Msg: fmt.Sprintf("restored version %d outside the window [%d,%d] of states committed before/while the acknowledged call ran", v, vStart, w.LastV)}
	}
	if want, ok := w.Ledger[v]; !ok || want != d {
		return &lsw.Mismatch{Oracle: "r1-logical", Msg: fmt.Sprintf("restored version %d digest %s is not the committed state %q", v, d, want)}
	}
	return nil
}

// genNested draws the application ops executed inside one phase hook.
func genNested(t *rapid.T, m *lsw.GenModel) []lsw.Op {
	var ops []lsw.Op
	switch rapid.IntRange(0, 9).Draw(t, "nestedKind") {
	case 0, 1, 2:
		// take (and keep) the write lock, when nobody holds it
		if m.Writer == -1 && m.ConnOpen[0] && m.Tx[0] == 0 {
			m.Tx[0], m.Writer = 2, 0
			ops = append(ops, lsw.Op{K: "begin", C: 0})
			if rapid.Bool().Draw(t, "writeInTx") {
				ops = append(ops, m.AppOp(t))
			}
			return ops
		}
		fallthrough
	default:
		n := rapid.IntRange(1, 2).Draw(t, "nestedN")
		for i := 0; i < n; i++ {
			ops = append(ops, m.AppOp(t))
		}
	}
	return ops
}

var c01Phases = map[string][]string{
	"sync": {"verify", "sync_page_map", "sync_prepare_ltx", "write_ltx_from_wal", "write_ltx_from_db", "rename_ltx", "sync_complete", "checkpoint_if_needed",
		"checkpoint_copy_before", "checkpoint_passive_barrier", "checkpoint_exec", "checkpoint_exec", "checkpoint_bump_seq", "checkpoint_bump_seq", "checkpoint_verify_restart",
		"checkpoint_snapshot_boundary_lock", "checkpoint_snapshot_boundary"},
	"lsckpt": {"checkpoint_lock", "checkpoint_copy_before", "sync_page_map", "rename_ltx", "checkpoint_passive_barrier", "checkpoint_passive_barrier", "checkpoint_exec", "checkpoint_exec", "checkpoint_exec",
		"checkpoint_bump_seq", "checkpoint_bump_seq", "checkpoint_bump_seq", "checkpoint_verify_restart", "checkpoint_snapshot_boundary_lock", "checkpoint_snapshot_boundary"},
	"snapshot": {"snapshot_encode", "snapshot_position", "snapshot_position"},
	"close":    {"verify", "sync_page_map", "rename_ltx", "sync_complete", "close_release", "checkpoint_exec", "checkpoint_bump_seq"},
}

func genInterleave(t *rapid.T, m *lsw.GenModel, k string) []lsw.Op {
	ph := c01Phases[k]
	if k == "syncwait" {
		ph = c01Phases["sync"]
	}
	if len(ph) == 0 {
		return nil
	}
	var xs []lsw.Op
	n := rapid.IntRange(1, 3).Draw(t, "entries")
	for i := 0; i < n; i++ {
		x := lsw.Op{K: "at", M: rapid.SampledFrom(ph).Draw(t, "phase"), N: rapid.SampledFrom([]int{1, 1, 1, 2, 3}).Draw(t, "occ"), X: genNested(t, m)}
		if (x.M == "snapshot_position" || x.M == "snapshot_encode") && rapid.Bool().Draw(t, "restartInHook") && m.Writer == -1 && m.ConnOpen[0] && m.Tx[0] == 0 {
			// the application checkpoints and writes: when the WAL was completely backfilled this restarts it right
			// between the capture of the snapshot position and the snapshot's read
			x.X = append(x.X, lsw.Op{K: "appckpt", C: 0, M: rapid.SampledFrom([]string{"PASSIVE", "FULL", "RESTART"}).Draw(t, "hookCkpt")},
				lsw.Op{K: "insert", C: 0, T: 0, N: rapid.SampledFrom([]int{1, 2, 5}).Draw(t, "n"), S: 1})
		}
		if x.M == "snapshot_position" && rapid.IntRange(0, 3).Draw(t, "lsInHook") > 0 {
			// between a snapshot's position and its reader nothing of litestream's is held but the checkpoint read lock:
			// the harness may sync and ask for a checkpoint right there, then let the application commit again
			x.X = append(x.X, lsw.Op{K: "ls", M: "sync"}, lsw.Op{K: "ls", M: "checkpoint", L: rapid.IntRange(0, 3).Draw(t, "ckptMode")})
			x.X = append(x.X, genNested(t, m)...)
		}
		xs = append(xs, x)
	}
	return xs
}

var (
	c01EarlyCkptPhases = []string{"checkpoint_lock", "checkpoint_read_wal_header", "checkpoint_copy_before", "sync_complete", "checkpoint_passive_barrier", "checkpoint_passive_barrier", "checkpoint_exec", "checkpoint_exec", "checkpoint_exec"}
	c01LateCkptPhases  = []string{"checkpoint_bump_seq", "checkpoint_bump_seq", "checkpoint_verify_restart", "checkpoint_snapshot_boundary_lock", "checkpoint_snapshot_boundary", "sync_page_map", "rename_ltx"}
)

// genCkptEpisode draws a checkpoint episode: writes, a sync, then a litestream checkpoint (explicit, or the one a sync
// decides on) during which the application commits before the checkpoint runs and/or holds the write lock at one of
// the later steps, followed by more writes and an acknowledged sync.
func genCkptEpisode(t *rapid.T, m *lsw.GenModel, cfg lsw.Config) []lsw.Op {
	var ops []lsw.Op
	ops = append(ops, m.CloseOutTx()...)
	for i, n := 0, rapid.IntRange(1, 3).Draw(t, "pre"); i < n; i++ {
		ops = append(ops, m.AppOp(t))
	}
	ops = append(ops, m.CloseOutTx()...)
	ops = append(ops, lsw.Op{K: "sync"})
	for i, n := 0, rapid.IntRange(0, 2).Draw(t, "mid"); i < n; i++ {
		ops = append(ops, m.AppOp(t))
	}
	ops = append(ops, m.CloseOutTx()...)
	var o lsw.Op
	if rapid.IntRange(0, 3).Draw(t, "explicit") > 0 {
		o = lsw.Op{K: "lsckpt", M: rapid.SampledFrom([]string{"TRUNCATE", "TRUNCATE", "RESTART", "FULL", "PASSIVE"}).Draw(t, "mode")}
	} else {
		o = lsw.Op{K: rapid.SampledFrom([]string{"sync", "syncwait"}).Draw(t, "viaSync")}
	}
	if rapid.IntRange(0, 9).Draw(t, "early") < 8 {
		x := lsw.Op{K: "at", M: rapid.SampledFrom(c01EarlyCkptPhases).Draw(t, "earlyPhase"), N: 1}
		for i, n := 0, rapid.IntRange(1, 2).Draw(t, "earlyN"); i < n; i++ {
			x.X = append(x.X, m.AppOp(t))
		}
		x.X = append(x.X, m.CloseOutTx()...)
		o.X = append(o.X, x)
	}
	if rapid.IntRange(0, 9).Draw(t, "late") < 8 && m.Writer == -1 && m.ConnOpen[0] && m.Tx[0] == 0 {
		x := lsw.Op{K: "at", M: rapid.SampledFrom(c01LateCkptPhases).Draw(t, "latePhase"), N: 1, X: []lsw.Op{{K: "begin", C: 0}}}
		m.Tx[0], m.Writer = 2, 0
		if rapid.Bool().Draw(t, "lateWrite") {
			x.X = append(x.X, m.AppOp(t))
		}
		o.X = append(o.X, x)
	}
	ops = append(ops, o)
	ops = append(ops, m.CloseOutTx()...)
	for i, n := 0, rapid.IntRange(0, 2).Draw(t, "post"); i < n; i++ {
		ops = append(ops, m.AppOp(t))
	}
	ops = append(ops, m.CloseOutTx()...)
	ops = append(ops, lsw.Op{K: "syncwait"})
	return ops
}

// genC01I draws histories whose litestream ops carry interleaved application activity at harness-chosen pipeline points.
func genC01I(t *rapid.T) lsw.Case {
	cfg := lsw.GenConfig(t, core.Thorough())
	cfg.ViaServer = rapid.IntRange(0, 3).Draw(t, "viaServer") == 0
	if rapid.Bool().Draw(t, "smallThresholds") {
		cfg.MinCkpt = rapid.SampledFrom([]int{1, 2, 5}).Draw(t, "minckI")
		cfg.TruncN = rapid.SampledFrom([]int{0, 3, 10}).Draw(t, "truncI")
	}
	maxSteps := 30
	if core.Thorough() {
		maxSteps = 60
	}
	n := rapid.IntRange(6, maxSteps).Draw(t, "steps")
	m := lsw.NewGenModel(cfg)
	var ops []lsw.Op
	for i := 0; i < n; i++ {
		w := rapid.IntRange(0, 11).Draw(t, "which")
		if w < 5 {
			ops = append(ops, m.AppOp(t))
			continue
		}
		if w >= 10 {
			ops = append(ops, genCkptEpisode(t, m, cfg)...)
			continue
		}
		o := genLSOpC01(t, cfg)
		if rapid.IntRange(0, 9).Draw(t, "interleave") < 7 {
			o.X = genInterleave(t, m, o.K)
		}
		ops = append(ops, o)
	}
	ops = append(ops, m.CloseOutTx()...)
	if rapid.IntRange(0, 3).Draw(t, "endClose") == 0 {
		o := lsw.Op{K: "close"}
		if rapid.Bool().Draw(t, "interleaveClose") {
			o.X = genInterleave(t, m, "close")
			ops = append(ops, o)
			return lsw.Case{Cfg: cfg, Ops: ops}
		}
		ops = append(ops, o)
	} else {
		ops = append(ops, lsw.Op{K: "syncwait"})
	}
	return lsw.Case{Cfg: cfg, Ops: ops}
}

func TestProp_C01I(t *testing.T) {
	core.Check(t, "C01", genC01I, execC01)
}

func TestProp_C01(t *testing.T) {
	core.Check(t, "C01", genC01, execC01)
}
