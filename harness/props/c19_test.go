package props

// C19 — legacy 0.3.x backups restore to the right state or fail.
//
// Legacy layouts are synthesised from real SQLite histories (no litestream):
// a generation is a run of WAL indices, index i is the complete WAL written
// between two TRUNCATE checkpoints, the snapshot of index i is the database
// file as it stood when index i began; WALs are cut at commit boundaries into
// LZ4-framed segments; file times come from a synthetic increasing clock.

import (
	"bytes"
	"context"
	"fmt"
	"os"
	"path/filepath"
	"sort"
	"testing"
	"time"

	"github.com/benbjohnson/litestream"
	"github.com/pierrec/lz4/v4"
	"pgregory.net/rapid"

	"verifharness/core"
	"verifharness/lsw"
)

type c19Index struct {
	Ops      []lsw.Op `json:"ops"`
	Cuts     []int    `json:"cuts"`               // which commit boundaries end a segment (indices into the commit list; the last commit always does)
	Snapshot bool     `json:"snapshot,omitempty"` // write a snapshot file for this index (index 0 always has one)
}

type c19Gen struct {
	Indices []c19Index `json:"indices"`
}

type c19Case struct {
	Cfg     lsw.Config `json:"cfg"`
	Gens    []c19Gen   `json:"gens"`
	Uniform bool       `json:"uniform,omitempty"` // every transaction is the same full-table update: equal-length WALs
	Remove  int        `json:"remove"`            // -1 = nothing removed, else index into the list of all segments
	Target  int        `json:"target"`            // -1 = no timestamp, else selector into the candidate instants
	WithLTX int        `json:"with_ltx"`          // 0 = legacy only; 1/2/3 = also a current-format replica, placed before / after / between the newest legacy snapshot and the legacy WAL segments that follow it
	GenRev  bool       `json:"gen_rev,omitempty"` // generation IDs sort in the reverse of their age (IDs are random in real layouts)
}

func genC19(t *rapid.T) c19Case {
	cfg := lsw.Config{PageSize: rapid.SampledFrom([]int{512, 1024, 4096}).Draw(t, "ps"), MinCkpt: 1000, Levels: 1}
	cfg.AutoVacuum = rapid.SampledFrom([]int{0, 0, 2}).Draw(t, "av")
	c := c19Case{Cfg: cfg}
	c.Uniform = rapid.IntRange(0, 4).Draw(t, "uniform") == 0
	m := lsw.NewGenModel(cfg)
	ng := rapid.IntRange(1, 3).Draw(t, "gens")
	for g := 0; g < ng; g++ {
		var gen c19Gen
		ni := rapid.IntRange(1, 4).Draw(t, "indices")
		for i := 0; i < ni; i++ {
			var ix c19Index
			ntx := rapid.IntRange(1, 4).Draw(t, "txns")
			for k := 0; k < ntx; k++ {
				if c.Uniform {
					ix.Ops = append(ix.Ops, lsw.Op{K: "update", T: 0, A: 0, B: 100})
					continue
				}
				o := m.AppOp(t)
				switch o.K {
				case "begin", "beginread", "openconn", "closeconn", "commit", "rollback", "endread", "appckpt", "vacuum":
					o = lsw.Op{K: "insert", T: 0, N: rapid.IntRange(1, 6).Draw(t, "n"), S: rapid.IntRange(0, 2).Draw(t, "size")}
				}
				o.C = 0
				ix.Ops = append(ix.Ops, o)
			}
			for k := 0; k < ntx; k++ {
				if rapid.Bool().Draw(t, "cut") {
					ix.Cuts = append(ix.Cuts, k)
				}
			}
			ix.Snapshot = i == 0 || rapid.IntRange(0, 2).Draw(t, "snap") == 0
			gen.Indices = append(gen.Indices, ix)
		}
		c.Gens = append(c.Gens, gen)
	}
	c.Remove = -1
	if rapid.IntRange(0, 2).Draw(t, "removeOne") > 0 {
		c.Remove = rapid.IntRange(0, 63).Draw(t, "remove")
	}
	c.Target = -1
	if rapid.IntRange(0, 2).Draw(t, "withT") > 0 {
		c.Target = rapid.IntRange(0, 255).Draw(t, "target")
	}
	c.WithLTX = rapid.SampledFrom([]int{0, 0, 0, 1, 2, 3}).Draw(t, "withLTX")
	c.GenRev = rapid.Bool().Draw(t, "genRev")
	return c
}

type v3Seg struct {
	gen     string
	index   int
	off     int64
	size    int64
	endV    int64 // version stamp at the commit boundary where the segment ends
	mtime   time.Time
	path    string
	removed bool
}

type v3Snap struct {
	gen   string
	index int
	v     int64
	mtime time.Time
}

func writeLZ4(path string, b []byte, mt time.Time) {
	_ = os.MkdirAll(filepath.Dir(path), 0o755)
	var buf bytes.Buffer
	zw := lz4.NewWriter(&buf)
	_, _ = zw.Write(b)
	_ = zw.Close()
	if err := os.WriteFile(path, buf.Bytes(), 0o644); err != nil {
		panic(err)
	}
	_ = os.Chtimes(path, mt, mt)
}

func execC19(c c19Case) (res core.Result) {
	ctx := context.Background()
	cfg := c.Cfg
	cfg.AppAutoCkpt = 0
	w, err := lsw.NewWorld(cfg, core.WorkDir("c19"))
	if err != nil {
		panic(fmt.Sprintf("harness: new world: %v", err))
	}
	defer w.Cleanup()
	res.Key = core.HashJSON(c)
	root := filepath.Join(w.Dir, "legacy")
	clock := time.Date(2023, 5, 1, 0, 0, 0, 0, time.UTC)
	tick := func() time.Time { clock = clock.Add(10 * time.Second); return clock }
	w.AppStep(lsw.Op{K: "insert", T: 0, N: 6, S: 1})
	var segs []*v3Seg
	var snaps []*v3Snap
	walPath := w.DBPath + "-wal"
	for gi, gen := range c.Gens {
		gid := fmt.Sprintf("%016x", 0xa000+gi)
		if c.GenRev {
			gid = fmt.Sprintf("%016x", 0xf000-gi)
		}
		for ii, ix := range gen.Indices {
			// index boundary: everything checkpointed, WAL truncated
			w.AppStep(lsw.Op{K: "appckpt", M: "TRUNCATE"})
			if fi, err := os.Stat(walPath); err == nil && fi.Size() != 0 {
				panic("harness: WAL not truncated at index boundary")
			}
			if ix.Snapshot {
				img, err := w.ReadDB()
				if err != nil {
					panic(err)
				}
				mt := tick()
				writeLZ4(filepath.Join(root, "generations", gid, "snapshots", litestream.FormatSnapshotFilenameV3(ii)), img, mt)
				snaps = append(snaps, &v3Snap{gen: gid, index: ii, v: w.LastV, mtime: mt})
			}
			type boundary struct {
				off int64
				v   int64
			}
			var bounds []boundary
			for _, o := range ix.Ops {
				before := w.LastV
				w.AppStep(o)
				if w.LastV != before {
					fi, _ := os.Stat(walPath)
					bounds = append(bounds, boundary{fi.Size(), w.LastV})
				}
			}
			if len(bounds) == 0 {
				// guarantee at least one commit per index
				w.AppStep(lsw.Op{K: "insert", T: 0, N: 1, S: 0})
				fi, _ := os.Stat(walPath)
				bounds = append(bounds, boundary{fi.Size(), w.LastV})
			}
			wal, _ := os.ReadFile(walPath)
			cut := map[int]bool{len(bounds) - 1: true}
			for _, k := range ix.Cuts {
				if k < len(bounds) {
					cut[k] = true
				}
			}
			start := int64(0)
			for k, b := range bounds {
				if !cut[k] || b.off <= start {
					continue
				}
				mt := tick()
				p := filepath.Join(root, "generations", gid, "wal", litestream.FormatWALSegmentFilenameV3(ii, start))
				writeLZ4(p, wal[start:b.off], mt)
				segs = append(segs, &v3Seg{gen: gid, index: ii, off: start, size: b.off - start, endV: b.v, mtime: mt, path: p})
				start = b.off
			}
		}
	}
	finalV := w.LastV
	_ = finalV
	// optional removal of one segment
	if c.Remove >= 0 && len(segs) > 0 {
		s := segs[c.Remove%len(segs)]
		_ = os.Remove(s.path)
		s.removed = true
		res.Labels = append(res.Labels, "segment-removed")
	}
	// optional current-format replica built by litestream from another history, with times before / after the legacy files
	var ltxOnly string
	var ltxTimes []time.Time
	if c.WithLTX > 0 {
		w2, err := lsw.NewWorld(lsw.Config{PageSize: 1024, MinCkpt: 1000, Levels: 1}, core.WorkDir("c19ltx"))
		if err != nil {
			panic(err)
		}
		defer w2.Cleanup()
		_ = w2.Attach()
		for _, o := range []lsw.Op{{K: "insert", T: 0, N: 3, S: 1}, {K: "syncwait"}, {K: "update", T: 0, A: 0, B: 100}, {K: "syncwait"}, {K: "snapshot"}, {K: "insert", T: 0, N: 2, S: 1}, {K: "syncwait"}} {
			if lsw.IsLSOp(o.K) {
				w2.LSStep(o)
			} else {
				w2.AppStep(o)
			}
		}
		_ = w2.Detach()
		ltxOnly = filepath.Join(w.Dir, "ltxonly")
		if err := copyTree(filepath.Join(w2.ReplicaDir, "ltx"), filepath.Join(ltxOnly, "ltx")); err != nil {
			panic(err)
		}
		// re-time: mode 1 = all before the legacy files, mode 2 = all after
		base := time.Date(2023, 4, 1, 0, 0, 0, 0, time.UTC)
		step := 10 * time.Second
		if c.WithLTX == 2 {
			base = clock.Add(time.Hour)
		}
		if c.WithLTX == 3 {
			// the newest current-format file is one second younger than the newest legacy snapshot: older than the
			// legacy WAL segments written after that snapshot (if there are any)
			var newestSnap time.Time
			for _, sn := range snaps {
				if sn.mtime.After(newestSnap) {
					newestSnap = sn.mtime
				}
			}
			n := len(lsw.ListLTX(ltxOnly))
			step = 100 * time.Millisecond
			base = newestSnap.Add(time.Second).Add(-time.Duration(n-1) * step)
		}
		for i, f := range lsw.ListLTX(ltxOnly) {
			mt := base.Add(time.Duration(i) * step)
			_ = os.Chtimes(f.Path, mt, mt)
			ltxTimes = append(ltxTimes, mt)
		}
		if err := copyTree(filepath.Join(ltxOnly, "ltx"), filepath.Join(root, "ltx")); err != nil {
			panic(err)
		}
		res.Labels = append(res.Labels, fmt.Sprintf("both-formats:%d", c.WithLTX))
	}
	// target time
	var T time.Time
	if c.Target >= 0 {
		var cands []time.Time
		for _, s := range snaps {
			cands = append(cands, s.mtime.Add(-time.Second), s.mtime, s.mtime.Add(time.Second))
		}
		for _, s := range segs {
			cands = append(cands, s.mtime.Add(-time.Second), s.mtime, s.mtime.Add(time.Second))
		}
		for _, t := range ltxTimes {
			cands = append(cands, t.Add(time.Second))
		}
		T = cands[c.Target%len(cands)]
		res.Labels = append(res.Labels, "with-timestamp")
	}

	// ---- expected outcome of the legacy format, computed from the layout alone
	expectErr, expectV := false, int64(-1)
	var S *v3Snap
	for _, s := range snaps {
		if !T.IsZero() && s.mtime.After(T) {
			continue
		}
		if S == nil || s.mtime.After(S.mtime) {
			S = s
		}
	}
	multiSeg, multiIdx, tailHole := false, false, false
	totalLen := map[string]int64{}
	for _, s := range segs {
		k := fmt.Sprintf("%s/%d", s.gen, s.index)
		if s.off+s.size > totalLen[k] {
			totalLen[k] = s.off + s.size
		}
	}
	if S == nil {
		expectErr = true
	} else {
		var el []*v3Seg
		for _, s := range segs {
			if s.removed || s.gen != S.gen || s.index < S.index {
				continue
			}
			if !T.IsZero() && s.mtime.After(T) {
				continue
			}
			el = append(el, s)
		}
		sort.Slice(el, func(i, j int) bool {
			if el[i].index != el[j].index {
				return el[i].index < el[j].index
			}
			return el[i].off < el[j].off
		})
		expectV = S.v
		idx, off := S.index, int64(0)
		k := 0
		for ; k < len(el); k++ {
			s := el[k]
			if s.index == idx && s.off == off {
				off += s.size
				expectV = s.endV
				continue
			}
			if s.index == idx+1 && s.off == 0 && off > 0 && off == totalLen[fmt.Sprintf("%s/%d", S.gen, idx)] {
				idx, off = s.index, s.size
				expectV = s.endV
				multiIdx = true
				continue
			}
			if s.index == idx+1 && s.off == 0 && off > 0 {
				tailHole = true // the previous index lost its last segment(s): nothing in the layout reveals that
			}
			break
		}
		if k < len(el) {
			expectErr = true // something lies beyond a hole: a missing segment or index gap
			res.Labels = append(res.Labels, "interior-hole")
		}
		if len(el) >= 2 {
			multiSeg = true
		}
	}
	// ---- format arbitration, computed from the file times alone
	useV3 := true
	if c.WithLTX > 0 {
		var v3Updated, ltxUpdated time.Time
		for _, s := range snaps {
			if s.mtime.After(v3Updated) {
				v3Updated = s.mtime
			}
		}
		for _, s := range segs {
			if !s.removed && s.mtime.After(v3Updated) {
				v3Updated = s.mtime
			}
		}
		for _, t := range ltxTimes {
			if t.After(ltxUpdated) {
				ltxUpdated = t
			}
		}
		if T.IsZero() {
			useV3 = v3Updated.After(ltxUpdated)
		} else {
			var ltxSnap time.Time
			for _, f := range lsw.ListLTX(ltxOnly) {
				if f.Level == 9 && f.Mod.Before(T) && f.Mod.After(ltxSnap) {
					ltxSnap = f.Mod
				}
			}
			useV3 = S != nil && (ltxSnap.IsZero() || S.mtime.After(ltxSnap))
		}
	}
	res.NonTrivial = (multiSeg && multiIdx) || (c.Remove >= 0 && len(segs) > 0) || c.WithLTX > 0

	out := filepath.Join(w.Dir, "c19-out.db")
	rerr := lsw.RestoreTo(ctx, root, out, 0, T)
	res.Evals++
	desc := fmt.Sprintf("T=%v useV3=%v S=%+v segs=%s", T, useV3, S, fmtSegs(segs))
	fail := func(oracle, format string, a ...any) core.Result {
		res.Violation = &core.Violation{Oracle: oracle, Msg: fmt.Sprintf(format, a...) + " | " + desc}
		return res
	}
	if !useV3 {
		// the current format must have been used: same outcome as restoring from the LTX files alone
		out2 := filepath.Join(w.Dir, "c19-ltx.db")
		rerr2 := lsw.RestoreTo(ctx, ltxOnly, out2, 0, T)
		if (rerr == nil) != (rerr2 == nil) {
			return fail("arbitration", "combined replica: err=%v, current-format files alone: err=%v (current format should have been chosen)", rerr, rerr2)
		}
		if rerr == nil {
			a, _ := os.ReadFile(out)
			b, _ := os.ReadFile(out2)
			if !bytes.Equal(a, b) {
				return fail("arbitration", "restore differs from the restore of the current-format files alone although they hold the more recent eligible backup")
			}
		}
		return res
	}
	if expectErr {
		if rerr == nil {
			v, _, _, _ := lsw.InspectFile(ctx, out)
			r := fail("gap-not-reported", "restore succeeded (version %d) although a segment is missing before later segments / no snapshot is eligible", v)
			if tailHole {
				// shape: the missing segment is the tail of its WAL index and the next index follows (offset 0)
				r.Violation.Shapes = append(r.Violation.Shapes, "v3-missing-index-tail-undetected")
			}
			return r
		}
		if _, err := os.Stat(out); err == nil {
			return fail("output-after-error", "restore failed (%v) but left a file at the output path", rerr)
		}
		res.Labels = append(res.Labels, "error-expected")
		return res
	}
	if rerr != nil {
		return fail("restore-refused", "restore failed (%v) although snapshot and segments are contiguous up to version %d", rerr, expectV)
	}
	v, d, ic, err := lsw.InspectFile(ctx, out)
	if err != nil || ic != "ok" {
		return fail("restored-unusable", "restored database unusable: ic=%q err=%v", ic, err)
	}
	if v != expectV || w.Ledger[v] != d {
		return fail("wrong-state", "restored version %d/%s, expected the state at the end of the last contiguous segment: version %d/%s", v, d, expectV, w.Ledger[expectV])
	}
	return res
}

func fmtSegs(segs []*v3Seg) string {
	s := ""
	for _, g := range segs {
		r := ""
		if g.removed {
			r = "(removed)"
		}
		s += fmt.Sprintf("%s/%d@%d+%d%s ", g.gen[12:], g.index, g.off, g.size, r)
	}
	return s
}

func TestProp_C19(t *testing.T) {
	core.Check(t, "C19", genC19, execC19)
}
