package props

import "verifharness/core"

// registerAll makes every executor available to TestReplay.
func registerAll() {
	core.Register("C08", execC08)
	core.Register("C01", execC01)
	core.Register("C02", execC02)
	core.Register("C20", execC20)
	core.Register("C09", execC09)
	core.Register("C13", execC13)
	core.Register("C14", execC14)
	core.Register("C06", execC06)
	core.Register("C07", execC07)
	core.Register("C15", execC15)
	core.Register("C04", execC04)
	core.Register("C05", execC05)
	core.Register("C10", execC10)
	core.Register("C11", execC11)
	core.Register("C03", execC03)
	core.Register("C16", execC16)
	core.Register("C19", execC19)
	core.Register("C17", execC17)
	core.Register("C12", execC12)
}
