package props

// C09 — only frames SQLite itself treats as committed are ever replicated.
//
// Corpus: real WALs produced by plain SQLite (no litestream) for several page
// sizes and shapes. Each case draws a corpus entry, 0-3 structured mutations
// and one of three entry points of WALReader; the oracle is the independent
// decoder refwal (R3), which is itself cross-checked against real SQLite
// recovery on a sample of the inputs.

import (
	"bytes"
	"context"
	"database/sql"
	"encoding/binary"
	"errors"
	"fmt"
	"io"
	"os"
	"path/filepath"
	"sync"
	"testing"

	"github.com/benbjohnson/litestream"
	"pgregory.net/rapid"

	"verifharness/core"
	"verifharness/refwal"
)

type walEntry struct {
	Name     string
	PageSize int
	DB       []byte
	WAL      []byte
}

var (
	corpusOnce sync.Once
	corpus     []walEntry
)

func buildWAL(dir string, ps int, name string, script func(db *sql.DB, snap func(tag string))) []walEntry {
	p := filepath.Join(dir, fmt.Sprintf("%s-%d.db", name, ps))
	db, err := sql.Open("sqlite", fmt.Sprintf("file:%s?_pragma=busy_timeout(1000)&_pragma=wal_autocheckpoint(0)&_pragma=cache_size(5)", p))
	if err != nil {
		panic(err)
	}
	db.SetMaxOpenConns(2)
	for _, q := range []string{fmt.Sprintf(`PRAGMA page_size=%d`, ps), `PRAGMA auto_vacuum=2`, `PRAGMA journal_mode=WAL`,
		`CREATE TABLE t(id INTEGER PRIMARY KEY, k INTEGER, v BLOB)`} {
		if _, err := db.Exec(q); err != nil {
			panic(fmt.Sprintf("%s: %v", q, err))
		}
	}
	var out []walEntry
	snap := func(tag string) {
		d, _ := os.ReadFile(p)
		w, _ := os.ReadFile(p + "-wal")
		out = append(out, walEntry{Name: fmt.Sprintf("%s/%s/ps%d", name, tag, ps), PageSize: ps, DB: d, WAL: w})
	}
	script(db, snap)
	db.Close()
	return out
}

func mustExec(db interface {
	Exec(string, ...any) (sql.Result, error)
}, q string, args ...any) {
	if _, err := db.Exec(q, args...); err != nil {
		panic(fmt.Sprintf("%s: %v", q, err))
	}
}

func getCorpus() []walEntry {
	corpusOnce.Do(func() {
		dir := core.WorkDir("c09corpus")
		defer os.RemoveAll(dir)
		blob := func(n int, seed byte) []byte {
			b := make([]byte, n)
			for i := range b {
				b[i] = seed + byte(i*7)
			}
			return b
		}
		for _, ps := range []int{512, 1024, 4096, 8192, 65536} {
			ps := ps
			// A: several commits, then checkpoint + restart leaving a stale tail, then a spilled open transaction
			corpus = append(corpus, buildWAL(dir, ps, "multi", func(db *sql.DB, snap func(string)) {
				for i := 0; i < 6; i++ {
					mustExec(db, `INSERT INTO t(k,v) VALUES(?,?)`, i, blob(ps/2+i*37, byte(i)))
				}
				mustExec(db, `UPDATE t SET k=k+1`)
				snap("commits")
				// long generation, then full checkpoint and a short new generation => stale tail of the old one
				mustExec(db, `PRAGMA wal_checkpoint(FULL)`)
				mustExec(db, `INSERT INTO t(k,v) VALUES(100,?)`, blob(40, 9))
				snap("restart-stale-tail")
				mustExec(db, `UPDATE t SET k=k+1 WHERE id<3`)
				snap("restart-two-commits")
				// open transaction with spilled, uncommitted frames at the end
				tx, err := db.Begin()
				if err != nil {
					panic(err)
				}
				for i := 0; i < 12; i++ {
					mustExec(tx, `INSERT INTO t(k,v) VALUES(?,?)`, 200+i, blob(ps, byte(i)))
				}
				snap("uncommitted-tail")
				_ = tx.Rollback()
				mustExec(db, `INSERT INTO t(k,v) VALUES(300,?)`, blob(10, 3))
				snap("after-rollback")
			})...)
			// B: growth then shrink inside one WAL generation (commit field decreases)
			corpus = append(corpus, buildWAL(dir, ps, "shrink", func(db *sql.DB, snap func(string)) {
				for i := 0; i < 10; i++ {
					mustExec(db, `INSERT INTO t(k,v) VALUES(?,?)`, i, blob(ps*2, byte(i)))
				}
				mustExec(db, `DELETE FROM t WHERE id>2`)
				mustExec(db, `PRAGMA incremental_vacuum`)
				snap("grow-shrink")
				mustExec(db, `INSERT INTO t(k,v) VALUES(50,?)`, blob(ps*3, 5))
				snap("grow-shrink-grow")
			})...)
		}
	})
	return corpus
}

// ---- mutations (on a copy of the WAL bytes)

type walMut struct {
	K string `json:"k"`
	A int    `json:"a,omitempty"`
	B int    `json:"b,omitempty"`
	C int    `json:"c,omitempty"`
}

type c09Case struct {
	Entry int      `json:"entry"`
	Muts  []walMut `json:"muts"`
	Call  string   `json:"call"` // full | offset | budget
	Off   int      `json:"off,omitempty"`    // index into the list of committed boundaries (offset call)
	Bud   int      `json:"bud,omitempty"`    // budget selector
	Cross bool     `json:"cross,omitempty"`  // also run the SQLite cross-check of the decoder
}

func rechain(b []byte, fromFrame int, ps int, upTo int) {
	d := struct{ be bool }{}
	magic := binary.BigEndian.Uint32(b[0:])
	d.be = magic == refwal.MagicBE
	fs := 24 + ps
	n := (len(b) - 32) / fs
	if upTo < n {
		n = upTo
	}
	var s0, s1 uint32
	if fromFrame == 0 {
		s0, s1 = refwal.Checksum(d.be, 0, 0, b[:24])
		binary.BigEndian.PutUint32(b[24:], s0)
		binary.BigEndian.PutUint32(b[28:], s1)
	} else {
		off := 32 + (fromFrame-1)*fs
		s0 = binary.BigEndian.Uint32(b[off+16:])
		s1 = binary.BigEndian.Uint32(b[off+20:])
	}
	for i := fromFrame; i < n; i++ {
		off := 32 + i*fs
		s0, s1 = refwal.Checksum(d.be, s0, s1, b[off:off+8])
		s0, s1 = refwal.Checksum(d.be, s0, s1, b[off+24:off+fs])
		binary.BigEndian.PutUint32(b[off+16:], s0)
		binary.BigEndian.PutUint32(b[off+20:], s1)
	}
}

func applyMuts(e walEntry, muts []walMut) []byte {
	b := append([]byte(nil), e.WAL...)
	ps := e.PageSize
	fs := 24 + ps
	nframes := func() int {
		if len(b) < 32 {
			return 0
		}
		return (len(b) - 32) / fs
	}
	for _, m := range muts {
		switch m.K {
		case "truncate":
			if len(b) > 0 {
				b = b[:m.A%(len(b)+1)]
			}
		case "flip":
			if len(b) > 0 {
				i := m.A % len(b)
				b[i] ^= 1 << uint(m.B%8)
			}
		case "flip-hdr": // inside the WAL header
			if len(b) >= 32 {
				b[m.A%32] ^= 1 << uint(m.B%8)
			}
		case "flip-fhdr": // inside a frame header
			if n := nframes(); n > 0 {
				off := 32 + (m.A%n)*fs + m.B%24
				b[off] ^= 1 << uint(m.C%8)
			}
		case "dup": // duplicate frame A at the position of frame B (overwriting it)
			if n := nframes(); n > 1 {
				i, j := m.A%n, m.B%n
				copy(b[32+j*fs:32+(j+1)*fs], append([]byte(nil), b[32+i*fs:32+(i+1)*fs]...))
			}
		case "swap":
			if n := nframes(); n > 1 {
				i, j := m.A%n, m.B%n
				t := append([]byte(nil), b[32+i*fs:32+(i+1)*fs]...)
				copy(b[32+i*fs:32+(i+1)*fs], b[32+j*fs:32+(j+1)*fs])
				copy(b[32+j*fs:32+(j+1)*fs], t)
			}
		case "append-stale": // append frames of another corpus WAL of the same page size (a longer earlier generation's tail)
			var cands []walEntry
			for _, o := range getCorpus() {
				if o.PageSize == ps && len(o.WAL) > 32+fs {
					cands = append(cands, o)
				}
			}
			if len(cands) > 0 && len(b) >= 32 {
				o := cands[m.A%len(cands)]
				on := (len(o.WAL) - 32) / fs
				k := m.B % on
				b = append(b[:32+nframes()*fs], o.WAL[32+k*fs:32+on*fs]...)
			}
		case "salt-hdr": // edit header salt; C&1 decides whether the header checksum is recomputed
			if len(b) >= 32 {
				b[16+m.A%8] ^= byte(1 + m.B%255)
				if m.C&1 == 1 {
					be := binary.BigEndian.Uint32(b[0:]) == refwal.MagicBE
					s0, s1 := refwal.Checksum(be, 0, 0, b[:24])
					binary.BigEndian.PutUint32(b[24:], s0)
					binary.BigEndian.PutUint32(b[28:], s1)
				}
			}
		case "salt-frame":
			if n := nframes(); n > 0 {
				off := 32 + (m.A%n)*fs + 8 + m.B%8
				b[off] ^= byte(1 + m.C%255)
			}
		case "commit-edit": // change a commit field and recompute the checksum chain from that frame on
			// only frames of the currently valid prefix are edited and re-chained, so that the recomputed
			// checksums never legitimise frames that earlier mutations damaged
			if n := len(refwal.Decode(b).Valid); n > 0 && len(b) >= 32 {
				i := m.A % n
				off := 32 + i*fs + 4
				// SQLite never writes a commit frame whose own page lies beyond the new database size
				// (pagerWalFrames drops pages > nTruncate before writing), so edited values keep commit >= pgno.
				pgno := binary.BigEndian.Uint32(b[32+i*fs:])
				switch m.B % 3 {
				case 0:
					binary.BigEndian.PutUint32(b[off:], 0) // remove a commit marker
				case 1:
					v := uint32(1 + m.C%64) // make it a commit / change the size
					if v < pgno {
						v = pgno
					}
					binary.BigEndian.PutUint32(b[off:], v)
				case 2:
					cur := binary.BigEndian.Uint32(b[off:])
					if cur > 1 && cur-1 >= pgno {
						binary.BigEndian.PutUint32(b[off:], cur-1)
					}
				}
				rechain(b, i, ps, n)
			}
		case "reencode": // other checksum byte order, all checksums recomputed
			// only a WAL whose header is currently valid is re-encoded: recomputing the header checksum of a
			// corrupted header would manufacture a "valid" header with an impossible page size or version,
			// which is outside the mutation set the property names (DESIGN section 6)
			if len(b) >= 32 && refwal.Decode(b).HeaderOK {
				magic := binary.BigEndian.Uint32(b[0:])
				// only the valid prefix is re-chained; the rest keeps its (now invalid) checksums
				d := refwal.Decode(append([]byte(nil), b...))
				binary.BigEndian.PutUint32(b[0:], magic^1)
				full := append([]byte(nil), b...)
				rechain(full, 0, ps, len(d.Valid))
				keep := 32 + len(d.Valid)*fs
				if keep > len(full) {
					keep = len(full)
				}
				copy(b[:keep], full[:keep])
			}
		}
	}
	return b
}

var mutKinds = []string{"truncate", "flip", "flip-hdr", "flip-fhdr", "dup", "swap", "append-stale", "salt-hdr", "salt-frame", "commit-edit", "commit-edit", "reencode"}

func genC09(t *rapid.T) c09Case {
	cp := getCorpus()
	c := c09Case{Entry: rapid.IntRange(0, len(cp)-1).Draw(t, "entry")}
	nm := rapid.SampledFrom([]int{0, 1, 1, 1, 2, 2, 3}).Draw(t, "nmuts")
	for i := 0; i < nm; i++ {
		c.Muts = append(c.Muts, walMut{K: rapid.SampledFrom(mutKinds).Draw(t, "mut"),
			A: rapid.IntRange(0, 1<<22).Draw(t, "a"), B: rapid.IntRange(0, 1<<16).Draw(t, "b"), C: rapid.IntRange(0, 255).Draw(t, "c")})
	}
	c.Call = rapid.SampledFrom([]string{"full", "full", "offset", "offset", "budget", "budget"}).Draw(t, "call")
	c.Off = rapid.IntRange(0, 63).Draw(t, "off")
	c.Bud = rapid.IntRange(0, 63).Draw(t, "bud")
	c.Cross = rapid.IntRange(0, 15).Draw(t, "cross") == 0
	return c
}

func execC09(c c09Case) (res core.Result) {
	cp := getCorpus()
	e := cp[c.Entry%len(cp)]
	b := applyMuts(e, c.Muts)
	d := refwal.Decode(b)
	ctx := context.Background()
	fs := int64(24 + e.PageSize)

	rejected := 0
	if d.HeaderOK {
		rejected = d.TotalFrames - d.CommittedFrames()
	}
	res.NonTrivial = d.HeaderOK && d.CommittedFrames() > 0 && (rejected > 0 || len(b) > 32+d.TotalFrames*int(fs))
	res.Labels = append(res.Labels, "call:"+c.Call, fmt.Sprintf("ps:%d", e.PageSize))
	for _, m := range c.Muts {
		res.Labels = append(res.Labels, "mut:"+m.K)
	}
	if !d.HeaderOK {
		res.Labels = append(res.Labels, "header-rejected")
	} else {
		if d.UncommittedTail() > 0 {
			res.Labels = append(res.Labels, "uncommitted-tail")
		}
		if d.TotalFrames > len(d.Valid) {
			res.Labels = append(res.Labels, "invalid-tail")
		}
		if d.BigEndian {
			res.Labels = append(res.Labels, "big-endian-checksums")
		}
	}
	res.Key = core.HashStrings(fmt.Sprintf("%x", b[:min(len(b), 64)]), fmt.Sprint(len(b), c.Call, c.Off, c.Bud), core.HashJSON(c.Muts), e.Name)

	fail := func(oracle, format string, a ...any) core.Result {
		res.Violation = &core.Violation{Oracle: oracle, Msg: fmt.Sprintf("%s muts=%v call=%s: ", e.Name, c.Muts, c.Call) + fmt.Sprintf(format, a...)}
		return res
	}

	// frame-by-frame: ReadFrame returns frames exactly for the valid prefix
	rd, err := litestream.NewWALReader(bytes.NewReader(b), discardLogger)
	if !d.HeaderOK {
		if err == nil {
			// litestream accepted a header the reference rejects: it must then not yield any committed page
			m, _, commit, perr := rd.PageMap(ctx)
			if perr == nil && (len(m) > 0 || commit != 0) {
				return fail("header-accepted", "reference rejects the WAL header but litestream replicated %d pages (commit %d)", len(m), commit)
			}
		}
		return res
	}
	if err != nil {
		if d.CommittedFrames() > 0 {
			return fail("header-rejected", "valid WAL with %d committed frames rejected: %v", d.CommittedFrames(), err)
		}
		return res
	}
	{
		buf := make([]byte, e.PageSize)
		i := 0
		for {
			pgno, commit, err := rd.ReadFrame(ctx, buf)
			if errors.Is(err, io.EOF) {
				break
			} else if err != nil {
				return fail("readframe-error", "ReadFrame: %v", err)
			}
			if i >= len(d.Valid) {
				return fail("readframe-accepts-invalid", "ReadFrame returned frame %d (pgno %d) beyond the valid prefix of %d frames", i, pgno, len(d.Valid))
			}
			if pgno != d.Valid[i].Pgno || commit != d.Valid[i].Commit {
				return fail("readframe-content", "frame %d: got pgno=%d commit=%d, reference pgno=%d commit=%d", i, pgno, commit, d.Valid[i].Pgno, d.Valid[i].Commit)
			}
			i++
		}
		if i != len(d.Valid) {
			return fail("readframe-short", "ReadFrame stopped after %d frames, reference valid prefix has %d", i, len(d.Valid))
		}
	}

	// committed boundaries inside the valid prefix
	var bounds []int // frame index just after a commit frame
	for i, f := range d.Valid {
		if f.Commit != 0 {
			bounds = append(bounds, i+1)
		}
	}

	start := 0
	var maxBytes int64
	var m map[uint32]int64
	var maxOffset int64
	var commit uint32
	var limited bool
	switch c.Call {
	case "full":
		rd, _ = litestream.NewWALReader(bytes.NewReader(b), discardLogger)
		m, maxOffset, commit, err = rd.PageMap(ctx)
	case "offset":
		if len(bounds) == 0 {
			res.Labels = append(res.Labels, "offset-inapplicable")
			return res
		}
		start = bounds[c.Off%len(bounds)]
		off := int64(32) + int64(start)*fs
		rd, err = litestream.NewWALReaderWithOffset(ctx, bytes.NewReader(b), off, d.Salt1, d.Salt2, discardLogger)
		if err != nil {
			return fail("offset-reader-error", "NewWALReaderWithOffset(%d) at a committed boundary of the valid prefix failed: %v", off, err)
		}
		m, maxOffset, commit, err = rd.PageMap(ctx)
	case "budget":
		rd, _ = litestream.NewWALReader(bytes.NewReader(b), discardLogger)
		total := int64(len(b))
		choices := []int64{1, fs, 2 * fs, 3 * fs, 5 * fs, total - 32 - fs, total - 32, total - 32 + fs, fs - 1, fs + 1}
		maxBytes = choices[c.Bud%len(choices)]
		if maxBytes <= 0 {
			maxBytes = 1
		}
		if len(bounds) > 1 && c.Bud >= 32 {
			start = bounds[c.Off%len(bounds)]
			if start < len(d.Valid) {
				off := int64(32) + int64(start)*fs
				rd, err = litestream.NewWALReaderWithOffset(ctx, bytes.NewReader(b), off, d.Salt1, d.Salt2, discardLogger)
				if err != nil {
					return fail("offset-reader-error", "NewWALReaderWithOffset(%d): %v", off, err)
				}
			} else {
				start = 0
			}
		}
		m, maxOffset, commit, limited, err = rd.VerifPageMap(ctx, maxBytes)
	}
	if err != nil {
		return fail("pagemap-error", "page map failed on a readable WAL: %v", err)
	}
	v := d.ViewFrom(start, maxBytes)
	if v.Commit == 0 {
		if len(m) != 0 || commit != 0 {
			return fail("replicated-uncommitted", "reference finds no committed frame from frame %d on, litestream returned %d pages commit=%d", start, len(m), commit)
		}
		return res
	}
	if commit != v.Commit {
		return fail("commit-mismatch", "commit %d, reference %d (start frame %d, budget %d)", commit, v.Commit, start, maxBytes)
	}
	if len(m) != len(v.Pages) {
		return fail("pageset-mismatch", "%d pages, reference %d (start frame %d, budget %d)", len(m), len(v.Pages), start, maxBytes)
	}
	for pg, off := range v.Pages {
		if got, ok := m[pg]; !ok {
			return fail("page-missing", "page %d missing", pg)
		} else if got != off {
			return fail("page-version", "page %d taken from offset %d, reference (latest committed version) %d", pg, got, off)
		}
	}
	if limited != v.Limited && maxBytes > 0 {
		return fail("limited-flag", "limited=%v, reference %v", limited, v.Limited)
	}
	// maxOffset: end of the last included commit frame, whenever that frame's page survives the trim
	lastCommitPg := uint32(0)
	for _, f := range d.Valid {
		if f.Offset+fs == v.EndOffset {
			lastCommitPg = f.Pgno
		}
	}
	if len(v.Pages) > 0 && lastCommitPg <= v.Commit && maxOffset != v.EndOffset {
		return fail("maxoffset", "maxOffset %d, reference end of last committed frame %d", maxOffset, v.EndOffset)
	}
	if maxOffset > v.EndOffset {
		return fail("maxoffset-beyond", "maxOffset %d lies beyond the last committed frame end %d", maxOffset, v.EndOffset)
	}

	if c.Cross {
		res.Labels = append(res.Labels, "sqlite-crosscheck")
		if msg := crossCheckSQLite(e, b, d); msg != "" {
			return fail("harness-decoder-vs-sqlite", "%s", msg)
		}
	}
	return res
}

var crossN int

// crossCheckSQLite validates the reference decoder itself: SQLite's recovery +
// checkpoint of (db, mutated wal) must equal db overlaid with the decoder's view.
func crossCheckSQLite(e walEntry, wal []byte, d *refwal.WAL) string {
	crossN++
	dir := core.WorkDir("c09x")
	defer os.RemoveAll(dir)
	p := filepath.Join(dir, "x.db")
	_ = os.WriteFile(p, e.DB, 0o644)
	_ = os.WriteFile(p+"-wal", wal, 0o644)
	db, err := sql.Open("sqlite", fmt.Sprintf("file:%s?_pragma=busy_timeout(1000)&_pragma=wal_autocheckpoint(0)", p))
	if err != nil {
		return ""
	}
	var a, b2, c int
	err = db.QueryRow(`PRAGMA wal_checkpoint(TRUNCATE)`).Scan(&a, &b2, &c)
	db.Close()
	if err != nil {
		return "" // SQLite refuses the pair (e.g. malformed after mutation): nothing to compare
	}
	got, _ := os.ReadFile(p)
	ps := e.PageSize
	want := append([]byte(nil), e.DB...)
	v := d.ViewFrom(0, 0)
	if v.Commit > 0 {
		need := int(v.Commit) * ps
		if len(want) < need {
			want = append(want, make([]byte, need-len(want))...)
		}
		for pg, off := range v.Pages {
			copy(want[(int(pg)-1)*ps:int(pg)*ps], wal[off+24:off+24+int64(ps)])
		}
		want = want[:need]
	}
	if !bytes.Equal(got, want) {
		return fmt.Sprintf("SQLite recovery gives %d bytes, decoder view %d bytes (commit %d): decoder disagrees with SQLite", len(got), len(want), v.Commit)
	}
	return ""
}

func TestProp_C09(t *testing.T) {
	getCorpus()
	core.Check(t, "C09", genC09, execC09)
}

// TestCorpus_C09 checks every unmutated corpus entry with the SQLite cross-check
// (validates the reference decoder on real WALs before it is trusted).
func TestCorpus_C09(t *testing.T) {
	core.Register("C09", execC09)
	defer core.FlushStats()
	for i := range getCorpus() {
		for _, call := range []string{"full", "offset", "budget"} {
			for k := 0; k < 4; k++ {
				c := c09Case{Entry: i, Call: call, Off: k, Bud: k * 3, Cross: call == "full" && k == 0}
				if !core.RunOne(t, "C09", c, execC09) {
					return
				}
			}
		}
	}
}

// FuzzC09 is the coverage-guided variant: bytes are decoded into (entry, mutations, call).
func FuzzC09(f *testing.F) {
	cp := getCorpus()
	for i := range cp {
		f.Add(uint16(i), []byte{})
		f.Add(uint16(i), []byte{9, 0, 0, 0, 1, 0, 0, 0, 0xff, 0xff, 1})
	}
	f.Add(uint16(0), []byte{0, 0xff, 0xff, 0xff, 0xff, 0, 0, 0, 1})
	f.Fuzz(func(t *testing.T, entry uint16, data []byte) {
		c := c09Case{Entry: int(entry) % len(cp)}
		i := 0
		next := func() int {
			if i+3 <= len(data) {
				v := int(data[i]) | int(data[i+1])<<8 | int(data[i+2])<<16
				i += 3
				return v
			}
			return 0
		}
		if len(data) > 0 {
			nm := int(data[0]) % 4
			i = 1
			for k := 0; k < nm; k++ {
				c.Muts = append(c.Muts, walMut{K: mutKinds[next()%len(mutKinds)], A: next(), B: next(), C: next() % 256})
			}
		}
		c.Call = []string{"full", "offset", "budget"}[next()%3]
		c.Off, c.Bud = next()%64, next()%64
		res := core.SafeExec(execC09, c)
		if res.Violation != nil {
			t.Fatalf("VIOLATION-CANDIDATE property=C09 oracle=%s %s case=%s", res.Violation.Oracle, res.Violation.Msg, core.HashJSON(c))
		}
	})
}
