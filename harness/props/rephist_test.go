package props

// Shared machinery for the replica-history properties C06 (compaction), C07
// (retention) and C15 (timestamp restore): a generator of histories over
// {application writes, SyncAndWait, Compact(l), CompactDB(l), Snapshot,
// retention passes} and helpers for decoding LTX files and re-composing them
// independently (R4).

import (
	"bytes"
	"context"
	"fmt"
	"io"
	"os"
	"path/filepath"
	"sort"
	"time"

	"github.com/superfly/ltx"
	"pgregory.net/rapid"

	"verifharness/lsw"
)

// ltxContent is the decoded content of one LTX file.
type ltxContent struct {
	Hdr   ltx.Header
	Pages map[uint32][]byte
	Order []uint32
}

func decodeLTX(path string) (*ltxContent, error) {
	b, err := os.ReadFile(path)
	if err != nil {
		return nil, err
	}
	return decodeLTXBytes(b)
}

func decodeLTXBytes(b []byte) (*ltxContent, error) {
	dec := ltx.NewDecoder(bytes.NewReader(b))
	if err := dec.DecodeHeader(); err != nil {
		return nil, fmt.Errorf("header: %w", err)
	}
	c := &ltxContent{Hdr: dec.Header(), Pages: map[uint32][]byte{}}
	for {
		var ph ltx.PageHeader
		data := make([]byte, c.Hdr.PageSize)
		if err := dec.DecodePage(&ph, data); err == io.EOF {
			break
		} else if err != nil {
			return nil, fmt.Errorf("page: %w", err)
		}
		c.Pages[ph.Pgno] = data
		c.Order = append(c.Order, ph.Pgno)
	}
	if err := dec.Close(); err != nil {
		return nil, fmt.Errorf("close: %w", err)
	}
	return c, nil
}

// recompose is R4: the naive sequential application of archived level-0 files
// a..b: later files overwrite pages, the commit is the last file's, pages beyond
// the running commit are dropped at each step.
func recompose(archiveDir string, a, b ltx.TXID) (pages map[uint32][]byte, commit uint32, maxTS int64, lastTS int64, err error) {
	pages = map[uint32][]byte{}
	for n := a; n <= b; n++ {
		c, err := decodeLTX(filepath.Join(archiveDir, ltx.FormatFilename(n, n)))
		if err != nil {
			return nil, 0, 0, 0, fmt.Errorf("archived L0 %d: %w", n, err)
		}
		for pg, d := range c.Pages {
			pages[pg] = d
		}
		commit = c.Hdr.Commit
		for pg := range pages {
			if pg > commit {
				delete(pages, pg)
			}
		}
		if c.Hdr.Timestamp > maxTS {
			maxTS = c.Hdr.Timestamp
		}
		lastTS = c.Hdr.Timestamp
	}
	return pages, commit, maxTS, lastTS, nil
}

// genRepHist draws a history for C06/C07/C15.
//   retention: include retention passes and file ageing (C07)
//   sleeps:    include "sleep" ops before syncs (C15)
func genRepHist(t *rapid.T, thorough bool, retention, sleeps bool) lsw.Case {
	cfg := lsw.GenConfig(t, thorough)
	cfg.Levels = rapid.IntRange(1, 8).Draw(t, "levels")
	if !thorough && cfg.Levels > 4 && rapid.Bool().Draw(t, "fewerLevels") {
		cfg.Levels = rapid.IntRange(1, 3).Draw(t, "levels2")
	}
	cfg.MaxSyncFr = rapid.SampledFrom([]int{0, 0, 3, -1}).Draw(t, "msf")
	if retention {
		cfg.L0RetNS = rapid.SampledFrom([]int64{1, int64(time.Hour)}).Draw(t, "l0ret")
		cfg.NoRetention = rapid.IntRange(0, 3).Draw(t, "noret") == 0
	}
	if sleeps {
		cfg.L0RetNS = rapid.SampledFrom([]int64{0, 1}).Draw(t, "l0ret")
	}
	m := lsw.NewGenModel(cfg)
	n := rapid.IntRange(10, 40).Draw(t, "steps")
	if thorough {
		n = rapid.IntRange(10, 70).Draw(t, "stepsT")
	}
	ops := []lsw.Op{{K: "syncwait"}}
	for i := 0; i < n; i++ {
		r := rapid.IntRange(0, 99).Draw(t, "which")
		switch {
		case r < 40:
			o := m.AppOp(t)
			if o.K == "appckpt" && o.M == "TRUNCATE" && m.Tx[o.C] == 0 {
				// an application TRUNCATE checkpoint while a reader blocks litestream's own: provokes in-chain full snapshots
			}
			ops = append(ops, o)
		case r < 62:
			if sleeps {
				ops = append(ops, lsw.Op{K: "sleep", N: 2})
			}
			ops = append(ops, lsw.Op{K: "syncwait"})
		case r < 80:
			ops = append(ops, lsw.Op{K: "compact", L: rapid.IntRange(1, cfg.Levels).Draw(t, "level")})
		case r < 86:
			lv := rapid.IntRange(1, cfg.Levels+1).Draw(t, "level")
			if lv == cfg.Levels+1 {
				lv = 9
			}
			ops = append(ops, lsw.Op{K: "compactdb", L: lv})
		case r < 92:
			ops = append(ops, lsw.Op{K: "snapshot"})
		default:
			if !retention {
				ops = append(ops, lsw.Op{K: "lsckpt", M: rapid.SampledFrom([]string{"PASSIVE", "TRUNCATE", "RESTART"}).Draw(t, "mode")})
				continue
			}
			// a retention pass: age the files, then one of the enforcement entry points
			ops = append(ops, lsw.Op{K: "age", N: rapid.IntRange(0, 9).Draw(t, "agePattern"), A: rapid.IntRange(0, 1000).Draw(t, "ageSeed")})
			switch rapid.IntRange(0, 4).Draw(t, "retKind") {
			case 0:
				ops = append(ops, lsw.Op{K: "retsnap", A: rapid.IntRange(0, 100).Draw(t, "cut")})
			case 1:
				ops = append(ops, lsw.Op{K: "retl0"})
			case 2:
				ops = append(ops, lsw.Op{K: "rettxid", L: rapid.IntRange(0, cfg.Levels).Draw(t, "level"), N: rapid.IntRange(0, 40).Draw(t, "txid")})
			case 3:
				ops = append(ops, lsw.Op{K: "storeret", A: rapid.IntRange(0, 100).Draw(t, "cut")})
			case 4:
				ops = append(ops, lsw.Op{K: "compact", L: 1}) // DB.Compact(1) runs L0 retention itself
			}
		}
	}
	ops = append(ops, m.CloseOutTx()...)
	ops = append(ops, lsw.Op{K: "syncwait"})
	return lsw.Case{Cfg: cfg, Ops: ops}
}

// ageFiles rewrites the mtimes of every replica file: base = now-3h, file i (in
// (level, TXID) order) gets base + i seconds; pattern >= 8 shuffles the order
// deterministically with seed. For L0-retention the drawn pattern also decides
// whether the L0 files straddle the 1h threshold: patterns 0-3 put every file
// 3h in the past, 4-7 put the newest third at "now + 1h" (recent), 8-9 arbitrary.
func ageFiles(replicaDir string, pattern, seed int) {
	files := lsw.ListLTX(replicaDir)
	now := time.Now()
	base := now.Add(-3 * time.Hour)
	idx := make([]int, len(files))
	for i := range idx {
		idx[i] = i
	}
	if pattern >= 8 {
		x := uint32(seed*2654435761 + 12345)
		for i := len(idx) - 1; i > 0; i-- {
			x = x*1664525 + 1013904223
			j := int(x>>8) % (i + 1)
			idx[i], idx[j] = idx[j], idx[i]
		}
	}
	for pos, i := range idx {
		ts := base.Add(time.Duration(pos) * time.Second)
		if pattern >= 4 && pattern <= 7 && pos >= 2*len(idx)/3 {
			ts = now.Add(time.Hour).Add(time.Duration(pos) * time.Second)
		}
		if pattern >= 8 && (seed+pos)%3 == 0 {
			ts = now.Add(time.Hour).Add(time.Duration(pos) * time.Second)
		}
		_ = os.Chtimes(files[i].Path, ts, ts)
	}
}

// runRetention executes one retention op. Returns the error of the call.
func runRetention(w *lsw.World, o lsw.Op) error {
	ctx := context.Background()
	cutTime := func(pct int) time.Time {
		// a threshold placed at a half-second between the aged mtimes of the level-9 files
		var snaps []lsw.RFile
		for _, f := range lsw.ListLTX(w.ReplicaDir) {
			if f.Level == 9 {
				snaps = append(snaps, f)
			}
		}
		if len(snaps) == 0 {
			return time.Now().Add(-90 * time.Minute)
		}
		sort.Slice(snaps, func(i, j int) bool { return snaps[i].Mod.Before(snaps[j].Mod) })
		k := pct * (len(snaps) + 1) / 101
		if k == 0 {
			return snaps[0].Mod.Add(-500 * time.Millisecond)
		}
		return snaps[k-1].Mod.Add(500 * time.Millisecond)
	}
	switch o.K {
	case "retsnap":
		_, err := w.DB.EnforceSnapshotRetention(ctx, cutTime(o.A))
		return err
	case "retl0":
		return w.DB.EnforceL0RetentionByTime(ctx)
	case "rettxid":
		return w.DB.EnforceRetentionByTXID(ctx, o.L, ltx.TXID(o.N))
	case "storeret":
		w.Store.SnapshotRetention = time.Since(cutTime(o.A))
		return w.Store.EnforceSnapshotRetention(ctx, w.DB)
	}
	panic("unknown retention op " + o.K)
}

func isRetentionOp(k string) bool {
	return k == "retsnap" || k == "retl0" || k == "rettxid" || k == "storeret"
}

// levelFiles groups a replica listing by level.
func levelFiles(files []lsw.RFile) map[int][]lsw.RFile {
	m := map[int][]lsw.RFile{}
	for _, f := range files {
		m[f.Level] = append(m[f.Level], f)
	}
	return m
}

func fileSetKey(files []lsw.RFile) map[string]bool {
	m := map[string]bool{}
	for _, f := range files {
		m[fmt.Sprintf("%d/%d-%d", f.Level, f.Min, f.Max)] = true
	}
	return m
}

// bruteLatest returns the furthest TXID reachable by a valid chain over the
// replica listing (R5 applied to a real directory).
func bruteLatest(files []lsw.RFile) int {
	var fs []c08File
	for _, f := range files {
		fs = append(fs, c08File{Level: f.Level, Min: int(f.Min), Max: int(f.Max)})
	}
	reach := bruteReach(fs, func(c08File) bool { return true })
	m := 0
	for r := range reach {
		if r > m {
			m = r
		}
	}
	return m
}
