package props

// C04 — when continuity with the WAL cannot be proven, litestream re-snapshots.
//
// C01 histories plus disturbance episodes during which litestream is down
// (process restart = new DB object; IPC stop/start = same object) or loses its
// local state, while the application keeps working.

import (
	"bytes"
	"context"
	"crypto/sha256"
	"fmt"
	"os"
	"path/filepath"
	"strings"
	"testing"

	"github.com/benbjohnson/litestream"
	"github.com/superfly/ltx"
	"pgregory.net/rapid"

	"verifharness/core"
	"verifharness/inject"
	"verifharness/lsw"
)

func genDownOps(t *rapid.T, m *lsw.GenModel, kind string) []lsw.Op {
	var ops []lsw.Op
	if rapid.IntRange(0, 4).Draw(t, "multiRestart") == 0 {
		// the WAL is checkpointed and restarted several times in a row while litestream is down, each generation
		// short (it stays below the old cursor) and rewriting different rows; optionally with missed work first
		for i, n := 0, rapid.IntRange(2, 3).Draw(t, "restarts"); i < n; i++ {
			a := 2
			if i == 0 && rapid.IntRange(0, 3).Draw(t, "missedFirst") == 0 {
				a = rapid.IntRange(0, 1).Draw(t, "missedKind")
			}
			ops = append(ops, lsw.Op{K: "walrestart",
				M: rapid.SampledFrom([]string{"PASSIVE", "PASSIVE", "FULL", "RESTART", "TRUNCATE"}).Draw(t, "mode"),
				N: rapid.SampledFrom([]int{0, 0, 3}).Draw(t, "relation"), A: a, B: rapid.IntRange(0, 80).Draw(t, "rows")})
		}
		return ops
	}
	n := rapid.IntRange(1, 6).Draw(t, "downSteps")
	for i := 0; i < n; i++ {
		r := rapid.IntRange(0, 99).Draw(t, "downOp")
		switch {
		case r < 35:
			o := m.AppOp(t)
			if o.K == "begin" || o.K == "beginread" || o.K == "openconn" || o.K == "closeconn" {
				// keep the down-time sub-history simple: autocommit work on the open connections
				o = lsw.Op{K: "update", T: 0, A: rapid.IntRange(0, 50).Draw(t, "a"), B: rapid.IntRange(50, 100).Draw(t, "b")}
			}
			ops = append(ops, o)
		case r < 50:
			ops = append(ops, lsw.Op{K: "update", T: 0, A: rapid.IntRange(0, 50).Draw(t, "a"), B: rapid.IntRange(50, 100).Draw(t, "b")})
		case r < 75:
			// A: work missed in the old generation before the checkpoint (0 growth, 1 in place, 2 none);
			// N: length of the new generation relative to the old cursor; B: which rows the new generation rewrites
			ops = append(ops, lsw.Op{K: "walrestart",
				M: rapid.SampledFrom([]string{"FULL", "RESTART", "TRUNCATE", "PASSIVE"}).Draw(t, "mode"),
				N: rapid.IntRange(0, 3).Draw(t, "relation"), A: rapid.IntRange(0, 2).Draw(t, "inplace"), B: rapid.IntRange(0, 80).Draw(t, "rows")})
		case r < 82:
			ops = append(ops, lsw.Op{K: "closeall"})
		case r < 88:
			ops = append(ops, lsw.Op{K: "replace-old"})
		case r < 92:
			ops = append(ops, lsw.Op{K: "replace-restore", N: rapid.IntRange(0, 30).Draw(t, "txid")})
		case r < 97:
			ops = append(ops, lsw.Op{K: "rm-meta"})
		default:
			ops = append(ops, lsw.Op{K: "reset-offline"})
		}
	}
	return ops
}

func genC04(t *rapid.T) lsw.Case {
	cfg := lsw.GenConfig(t, core.Thorough())
	m := lsw.NewGenModel(cfg)
	ops := []lsw.Op{{K: "sync"}}
	step := func(n int) {
		for i := 0; i < n; i++ {
			if rapid.IntRange(0, 9).Draw(t, "which") < 6 {
				ops = append(ops, m.AppOp(t))
			} else {
				ops = append(ops, genLSOpC01(t, cfg))
			}
		}
	}
	step(rapid.IntRange(2, 10).Draw(t, "prefix"))
	if rapid.Bool().Draw(t, "savecopy") {
		ops = append(ops, m.CloseOutTx()...)
		ops = append(ops, lsw.Op{K: "savecopy"})
		step(rapid.IntRange(1, 5).Draw(t, "afterSave"))
	}
	maxEp := 2
	if core.Thorough() {
		maxEp = 4
	}
	ne := rapid.IntRange(1, maxEp).Draw(t, "episodes")
	for e := 0; e < ne; e++ {
		ops = append(ops, m.CloseOutTx()...)
		ops = append(ops, lsw.Op{K: "syncwait"})
		kind := rapid.SampledFrom([]string{"restart", "restart", "restart", "reopen", "reopen", "reset-runtime"}).Draw(t, "episodeKind")
		ep := lsw.Op{K: "episode", M: kind}
		if kind != "reset-runtime" {
			ep.X = genDownOps(t, m, kind)
			// the storage may be briefly unreachable when litestream comes back: its first N client calls fail
			if rapid.IntRange(0, 9).Draw(t, "flakyStart") < 3 {
				ep.N = rapid.IntRange(1, 3).Draw(t, "flakyCalls")
				// A = 1: the failing calls that are listings fail while being iterated (after B items), the way a paginated
				// back end reports a failed page, instead of failing up front
				if rapid.Bool().Draw(t, "flakyIter") {
					ep.A = 1
					ep.B = rapid.IntRange(0, 3).Draw(t, "flakyIterItems")
				}
			}
		}
		ops = append(ops, ep)
		step(rapid.IntRange(0, 3).Draw(t, "afterEpisode"))
		ops = append(ops, m.CloseOutTx()...)
		ops = append(ops, lsw.Op{K: "syncwait"})
		step(rapid.IntRange(0, 4).Draw(t, "between"))
	}
	ops = append(ops, m.CloseOutTx()...)
	ops = append(ops, lsw.Op{K: "syncwait"})
	return lsw.Case{Cfg: cfg, Ops: ops}
}

// episodeObs are harness-side observations about one episode (never litestream internals).
type episodeObs struct {
	Kind          string
	OldFrames     int   // valid frames in the WAL when litestream went down
	OldWALSize    int64 // WAL file size when litestream went down
	OldSalt       uint32
	NewFrames     int
	NewWALSize    int64
	NewSalt       uint32
	MissedCommits int
	GenChanged    bool
	Replaced      bool
	MetaLost      bool
	RuntimeReset  bool
	ClosedAll     bool
	Pending       bool // no acknowledged sync has been checked since the episode
}

func fileHashes(files []lsw.RFile) map[string]string {
	m := map[string]string{}
	for _, f := range files {
		if f.Level != 0 {
			continue
		}
		b, err := os.ReadFile(f.Path)
		if err != nil {
			continue
		}
		h := sha256.Sum256(b)
		m[fmt.Sprintf("%d-%d", f.Min, f.Max)] = fmt.Sprintf("%x", h[:8])
	}
	return m
}

func execC04(c lsw.Case) (res core.Result) {
	w, err := lsw.NewWorld(c.Cfg, core.WorkDir("c04"))
	if err != nil {
		panic(fmt.Sprintf("harness: new world: %v", err))
	}
	defer w.Cleanup()
	var fc *inject.FaultClient
	w.WrapClient = func(inner litestream.ReplicaClient) litestream.ReplicaClient {
		fc = &inject.FaultClient{Inner: inner, Once: true}
		return fc
	}
	if err := w.Attach(); err != nil {
		panic(fmt.Sprintf("harness: attach: %v", err))
	}
	ctx := context.Background()
	res.Key = core.HashStrings(c.Abstract())
	var saved *lsw.SavedCopy
	var ep *episodeObs
	var preHashes map[string]string
	var preMax ltx.TXID
	episodes := map[string]int{}
	missedInPlace := false
	defer func() {
		c01Labels(w, &res)
		for k := range episodes {
			res.Labels = append(res.Labels, "episode:"+k)
		}
		res.NonTrivial = missedInPlace
	}()

	shapes := func(e *episodeObs, oracle string) []string {
		if e == nil {
			return nil
		}
		lossOracle := oracle == "r1-pages" || oracle == "r1-size" || oracle == "r1-logical" || oracle == "r1-integrity" || oracle == "ack-pos" || oracle == "r1-restore-error" || oracle == "r1-seq"
		var s []string
		if !lossOracle {
			return nil
		}
		if e.RuntimeReset {
			s = append(s, "runtime-reset")
		}
		if e.Kind == "reopen" && e.GenChanged && e.NewWALSize < e.OldWALSize {
			s = append(s, "reopen-truncate-short")
		}
		if e.GenChanged && e.NewWALSize >= e.OldWALSize && e.NewFrames < e.OldFrames && e.MissedCommits > 0 && !e.Replaced && !e.MetaLost {
			s = append(s, "walrestart-shorter-than-cursor")
		}
		return s
	}

	initialised := false // has a call that initialises the current DB object (Sync, SyncAndWait, Checkpoint) returned nil since it was (re)started?
	checkAck := func(i int, o lsw.Op) *core.Violation {
		res.Evals++
		mk := func(oracle, msg string) *core.Violation {
			v := &core.Violation{Oracle: oracle, Msg: fmt.Sprintf("after step %d (%s)%s: %s", i, o, epDesc(ep), msg), Shapes: shapes(ep, oracle)}
			if o.K == "close" && !initialised && strings.HasPrefix(oracle, "r1-") {
				// same root cause as C01's finding: Close on a DB object that never got initialised (here: because the storage
				// was unreachable for its first calls) returns nil without replicating
				v.Shapes = append(v.Shapes, "close-before-init")
			}
			return v
		}
		if m := w.CheckR1(); m != nil {
			return mk(m.Oracle, m.Msg)
		}
		if w.DB != nil {
			pos, err := w.DB.Pos()
			rmax := lsw.MaxL0(w.ReplicaDir)
			if err == nil && pos.TXID != rmax {
				return mk("ack-pos", fmt.Sprintf("acknowledged, but db position is %d and replica max L0 TXID is %d: replica not advancing", pos.TXID, rmax))
			}
		}
		if ep != nil && ep.Pending {
			// replica files that existed before the episode are immutable; anything new lies above them
			post := lsw.ListLTX(w.ReplicaDir)
			ph := fileHashes(post)
			for name, h := range preHashes {
				if nh, ok := ph[name]; ok && nh != h {
					return mk("replica-file-rewritten", fmt.Sprintf("level-0 file %s that was on the replica before the disturbance now has different content (old chain overwritten instead of starting above it)", name))
				}
			}
			ep.Pending = false
		}
		return nil
	}

	for i, o := range c.Ops {
		switch {
		case o.K == "savecopy":
			if s, err := w.SaveCopy(); err == nil {
				saved = s
			}
		case o.K == "episode":
			episodes[o.M]++
			ep = &episodeObs{Kind: o.M, Pending: true}
			ep.OldFrames, ep.OldSalt = w.WALFrames()
			if fi, err := os.Stat(w.DBPath + "-wal"); err == nil {
				ep.OldWALSize = fi.Size()
			}
			pre := lsw.ListLTX(w.ReplicaDir)
			preHashes = fileHashes(pre)
			preMax = lsw.MaxL0(w.ReplicaDir)
			_ = preMax
			commits0 := w.Obs.Commits
			switch o.M {
			case "restart":
				if err := w.Detach(); err == nil {
					// a clean shutdown is an acknowledgement too
					if v := checkAck(i, lsw.Op{K: "close"}); v != nil {
						res.Violation = v
						return res
					}
					ep.Pending = true
				}
				// the WAL as litestream left it
				ep.OldFrames, ep.OldSalt = w.WALFrames()
				if fi, err := os.Stat(w.DBPath + "-wal"); err == nil {
					ep.OldWALSize = fi.Size()
				}
			case "reopen":
				if err := w.Disable(); err != nil {
					ep = nil
					continue
				}
				ep.OldFrames, ep.OldSalt = w.WALFrames()
				if fi, err := os.Stat(w.DBPath + "-wal"); err == nil {
					ep.OldWALSize = fi.Size()
				}
			case "reset-runtime":
				ep.RuntimeReset = true
				if err := w.DB.ResetLocalState(ctx); err != nil {
					panic(fmt.Sprintf("harness: ResetLocalState: %v", err))
				}
			}
			for _, d := range o.X {
				runDownOp(w, d, saved, ep, &missedInPlace)
			}
			ep.MissedCommits = w.Obs.Commits - commits0
			ep.NewFrames, ep.NewSalt = w.WALFrames()
			ep.NewWALSize = 0
			if fi, err := os.Stat(w.DBPath + "-wal"); err == nil {
				ep.NewWALSize = fi.Size()
			}
			ep.GenChanged = ep.GenChanged || ep.NewSalt != ep.OldSalt
			switch o.M {
			case "restart":
				if err := w.Attach(); err != nil {
					res.Violation = &core.Violation{Oracle: "restart-failed", Msg: fmt.Sprintf("step %d%s: litestream cannot be started again: %v", i, epDesc(ep), err)}
					return res
				}
			case "reopen":
				if err := w.Enable(); err != nil {
					res.Violation = &core.Violation{Oracle: "restart-failed", Msg: fmt.Sprintf("step %d%s: litestream cannot be re-enabled: %v", i, epDesc(ep), err)}
					return res
				}
			}
			if o.M == "restart" || o.M == "reopen" {
				initialised = false
			}
			if o.N > 0 && fc != nil {
				fc.Plan = nil
				for k := 0; k < o.N; k++ {
					if o.A == 1 {
						fc.Plan = append(fc.Plan, inject.Fault{Code: inject.IterErrorAt, Arg: o.B})
					} else {
						fc.Plan = append(fc.Plan, inject.Fault{Code: inject.FailBefore})
					}
				}
				fc.N, fc.Enabled = 0, true
				res.Labels = append(res.Labels, "storage-unreachable-at-restart")
				if o.A == 1 {
					res.Labels = append(res.Labels, "listing-fails-while-iterated-at-restart")
				}
			}
		case lsw.IsLSOp(o.K):
			sr := w.LSStep(o)
			if (o.K == "sync" || o.K == "syncwait" || o.K == "lsckpt") && sr.Err == nil {
				initialised = true
			}
			if sr.Acked {
				if v := checkAck(i, o); v != nil {
					res.Violation = v
					return res
				}
			}
		default:
			w.AppStep(o)
		}
	}
	// Recovery: after the last disturbance replication must come back by itself. With every application transaction
	// ended and nothing else running, a sync-and-wait that still fails on the third consecutive attempt means litestream
	// neither proved continuity nor started over - it is stuck. (Errors on the first attempts are fine: one failed sync
	// is how some of the conditions are noticed.)
	if ep != nil && ep.Pending && w.DB != nil {
		for c := 0; c < lsw.NumConns; c++ {
			w.AppStep(lsw.Op{K: "rollback", C: c})
			w.AppStep(lsw.Op{K: "endread", C: c})
		}
		var lastErr error
		for k := 0; k < 3 && ep.Pending; k++ {
			w.AppStep(lsw.Op{K: "insert", T: 0, N: 1, S: 0})
			sr := w.LSStep(lsw.Op{K: "syncwait"})
			lastErr = sr.Err
			if sr.Acked {
				if v := checkAck(len(c.Ops)+k, lsw.Op{K: "syncwait"}); v != nil {
					res.Violation = v
					return res
				}
				ep.Pending = false
			}
		}
		if ep.Pending {
			res.Violation = &core.Violation{Oracle: "no-recovery", Msg: fmt.Sprintf("after the history%s: three consecutive sync-and-wait calls on a quiet database all fail, replication does not come back: %v", epDesc(ep), lastErr)}
			if ep.Kind == "reopen" && ep.MetaLost {
				res.Violation.Shapes = append(res.Violation.Shapes, "reopen-after-meta-lost-stuck")
			}
			return res
		}
	}
	return res
}

func epDesc(e *episodeObs) string {
	if e == nil {
		return ""
	}
	return fmt.Sprintf(" [last episode: %s missed=%d genChanged=%v walFrames %d->%d walSize %d->%d replaced=%v metaLost=%v runtimeReset=%v closedAll=%v]",
		e.Kind, e.MissedCommits, e.GenChanged, e.OldFrames, e.NewFrames, e.OldWALSize, e.NewWALSize, e.Replaced, e.MetaLost, e.RuntimeReset, e.ClosedAll)
}

// runDownOp executes one sub-history op while litestream is down.
func runDownOp(w *lsw.World, d lsw.Op, saved *lsw.SavedCopy, ep *episodeObs, missedInPlace *bool) {
	ctx := context.Background()
	switch d.K {
	case "walrestart":
		// optional missed work in the old generation, then a checkpoint, then a new generation of a chosen length
		switch d.A {
		case 1:
			w.AppStep(lsw.Op{K: "update", T: 0, A: 0, B: 100})
			*missedInPlace = true
		case 0:
			w.AppStep(lsw.Op{K: "insert", T: 0, N: 2, S: 1})
		}
		w.AppStep(lsw.Op{K: "appckpt", M: d.M})
		target := 1
		switch d.N {
		case 1:
			target = ep.OldFrames
		case 2:
			target = ep.OldFrames + 3
		case 3:
			target = ep.OldFrames / 2
		}
		for k := 0; k < 200; k++ {
			w.AppStep(lsw.Op{K: "update", T: 0, A: d.B, B: d.B + 20})
			if n, _ := w.WALFrames(); n >= target {
				break
			}
		}
	case "closeall":
		w.CloseAllApp()
		ep.ClosedAll = true
		if _, err := os.Stat(w.DBPath + "-wal"); err != nil {
			ep.GenChanged = true
		}
		if err := w.ReopenApp(); err != nil {
			panic(fmt.Sprintf("harness: reopen app: %v", err))
		}
	case "replace-old":
		if saved == nil {
			return
		}
		if err := w.ReplaceDB(saved.Image); err != nil {
			panic(fmt.Sprintf("harness: replace db: %v", err))
		}
		ep.Replaced, ep.GenChanged = true, true
	case "replace-restore":
		files := lsw.ListLTX(w.ReplicaDir)
		var txids []ltx.TXID
		for _, f := range files {
			if f.Level == 0 {
				txids = append(txids, f.Max)
			}
		}
		if len(txids) == 0 {
			return
		}
		n := txids[d.N%len(txids)]
		out := filepath.Join(w.Dir, "replace-restore.db")
		defer os.Remove(out)
		if err := lsw.RestoreTo(ctx, w.ReplicaDir, out, n, lsw.ZeroTime); err != nil {
			return
		}
		img, err := os.ReadFile(out)
		if err != nil {
			return
		}
		if err := w.ReplaceDB(img); err != nil {
			panic(fmt.Sprintf("harness: replace db: %v", err))
		}
		ep.Replaced, ep.GenChanged = true, true
	case "rm-meta":
		_ = os.RemoveAll(w.MetaDir())
		ep.MetaLost = true
	case "reset-offline":
		_ = os.RemoveAll(filepath.Join(w.MetaDir(), "ltx"))
		ep.MetaLost = true
	default:
		if d.K == "update" {
			*missedInPlace = true
		}
		w.AppStep(d)
	}
}

var _ = bytes.Equal

func TestProp_C04(t *testing.T) {
	core.Check(t, "C04", genC04, execC04)
}
