package props

// C16 — follow-mode restore converges and resumes correctly after being killed.
//
// The primary (application + litestream, in this process) runs slices of a
// C07-style history with compaction and level-0 retention. The follower is the
// lsdriver child running Restore with Follow; it is stopped (SIGTERM) or killed
// by the ptrace supervisor before a chosen mutating system call, and restarted.

import (
	"bytes"
	"context"
	"fmt"
	"os"
	"path/filepath"
	"strings"
	"testing"
	"time"

	"github.com/benbjohnson/litestream"
	"github.com/superfly/ltx"
	"pgregory.net/rapid"

	"verifharness/core"
	"verifharness/drv"
	"verifharness/lsw"
	"verifharness/ptracesup"
)

type c16Round struct {
	Ops     []lsw.Op `json:"ops"`               // primary slice executed while the follower is down
	Live    []lsw.Op `json:"live,omitempty"`    // primary slice executed while the follower is running
	KillPM  int      `json:"kill_pm,omitempty"` // >0: kill the follower at this fraction (per 10000) of an estimated call count
	KillAt  int      `json:"kill_at,omitempty"` // explicit kill index (enumeration)
}

type c16Case struct {
	Cfg    lsw.Config `json:"cfg"`
	Rounds []c16Round `json:"rounds"`
}

func genC16Slice(t *rapid.T, cfg lsw.Config, m *lsw.GenModel, n int) []lsw.Op {
	var ops []lsw.Op
	for i := 0; i < n; i++ {
		r := rapid.IntRange(0, 99).Draw(t, "which")
		switch {
		case r < 45:
			o := m.AppOp(t)
			switch o.K {
			case "begin", "beginread", "openconn", "closeconn", "commit", "rollback", "endread":
				o = lsw.Op{K: "update", T: 0, A: 0, B: rapid.IntRange(10, 100).Draw(t, "b")}
			}
			o.C = 0
			ops = append(ops, o)
		case r < 72:
			ops = append(ops, lsw.Op{K: "syncwait"})
		case r < 86:
			ops = append(ops, lsw.Op{K: "compact", L: rapid.IntRange(1, cfg.Levels).Draw(t, "level")})
		case r < 88:
			if cfg.Levels >= 2 {
				ops = append(ops, lsw.Op{K: "prune", L: rapid.IntRange(1, cfg.Levels-1).Draw(t, "pruneLevel"), A: rapid.SampledFrom([]int{30, 60, 100, 100}).Draw(t, "prunePct")})
			} else {
				ops = append(ops, lsw.Op{K: "syncwait"})
			}
		case r < 94:
			ops = append(ops, lsw.Op{K: "snapshot"})
		default:
			ops = append(ops, lsw.Op{K: "lsckpt", M: rapid.SampledFrom([]string{"PASSIVE", "TRUNCATE"}).Draw(t, "mode")})
		}
	}
	ops = append(ops, lsw.Op{K: "syncwait"})
	return ops
}

// genC16Ladder draws a slice that leaves the follower several levels behind: level-1 files, a level-2 file over
// them, the covered level-1 files pruned (partly or completely), then newer level-1 files and a level-0 tail.
func genC16Ladder(t *rapid.T, cfg lsw.Config) []lsw.Op {
	var ops []lsw.Op
	write := func() {
		if rapid.Bool().Draw(t, "ladderUpd") {
			ops = append(ops, lsw.Op{K: "update", T: 0, A: 0, B: rapid.IntRange(10, 100).Draw(t, "b")})
		} else {
			ops = append(ops, lsw.Op{K: "insert", T: 0, N: rapid.SampledFrom([]int{1, 3, 12}).Draw(t, "n"), S: rapid.IntRange(0, 2).Draw(t, "size")})
		}
		ops = append(ops, lsw.Op{K: "syncwait"})
	}
	l1 := func(n int) {
		for r := 0; r < n; r++ {
			for k := rapid.IntRange(1, 2).Draw(t, "ladderW"); k > 0; k-- {
				write()
			}
			ops = append(ops, lsw.Op{K: "compact", L: 1})
		}
	}
	l1(rapid.IntRange(2, 3).Draw(t, "ladderA"))
	ops = append(ops, lsw.Op{K: "compact", L: 2})
	if cfg.Levels >= 3 && rapid.Bool().Draw(t, "ladderL3") {
		ops = append(ops, lsw.Op{K: "compact", L: 3}, lsw.Op{K: "prune", L: 2, A: 100})
	}
	ops = append(ops, lsw.Op{K: "prune", L: 1, A: rapid.SampledFrom([]int{40, 70, 100, 100}).Draw(t, "prunePct")})
	l1(rapid.IntRange(1, 2).Draw(t, "ladderB"))
	for k := rapid.IntRange(1, 3).Draw(t, "ladderTail"); k > 0; k-- {
		write()
	}
	return ops
}

func genC16(t *rapid.T) c16Case {
	cfg := lsw.GenConfig(t, false)
	cfg.PageSize = rapid.SampledFrom([]int{512, 1024, 4096}).Draw(t, "ps")
	cfg.Levels = rapid.IntRange(1, 3).Draw(t, "levels")
	cfg.L0RetNS = 1 // level-0 files disappear as soon as they are compacted: gaps must be bridged from higher levels
	cfg.SmallCache = false
	cfg.MaxSyncFr = rapid.SampledFrom([]int{0, 3}).Draw(t, "msf")
	m := lsw.NewGenModel(cfg)
	c := c16Case{Cfg: cfg}
	nr := rapid.IntRange(2, 4).Draw(t, "rounds")
	for i := 0; i < nr; i++ {
		r := c16Round{Ops: genC16Slice(t, cfg, m, rapid.IntRange(3, 10).Draw(t, "n"))}
		if i > 0 && cfg.Levels >= 2 && rapid.IntRange(0, 9).Draw(t, "ladder") < 4 {
			r.Ops = append(genC16Ladder(t, cfg), lsw.Op{K: "syncwait"})
		}
		if rapid.IntRange(0, 2).Draw(t, "live") == 0 {
			r.Live = genC16Slice(t, cfg, m, rapid.IntRange(2, 5).Draw(t, "nlive"))
		}
		if i > 0 && rapid.IntRange(0, 1).Draw(t, "kill") == 0 {
			r.KillPM = rapid.IntRange(1, 9999).Draw(t, "killPM")
		}
		c.Rounds = append(c.Rounds, r)
	}
	return c
}

func readSidecar(out string) (ltx.TXID, bool, error) {
	b, err := os.ReadFile(out + "-txid")
	if os.IsNotExist(err) {
		return 0, false, nil
	} else if err != nil {
		return 0, false, err
	}
	id, err := ltx.ParseTXID(strings.TrimSpace(string(b)))
	if err != nil {
		return 0, true, fmt.Errorf("sidecar content %q does not parse: %v", string(b), err)
	}
	return id, true, nil
}

func maskFollow(b []byte) []byte {
	c := append([]byte(nil), b...)
	if len(c) >= 28 {
		c[18], c[19] = 0, 0
		c[24], c[25], c[26], c[27] = 0, 0, 0, 0
	}
	return c
}

type follower struct {
	w     *lsw.World
	out   string
	sup   *ptracesup.Sup
	proc  *drv.Proc
	reply chan drv.Reply // receives the answer of the follow command (error, clean stop, or death)
	got   *drv.Reply
}

// ended reports (without blocking) whether the follow command has returned or the child died.
func (f *follower) ended() bool {
	if f.got != nil {
		return true
	}
	select {
	case r := <-f.reply:
		f.got = &r
		return true
	default:
		return false
	}
}

func startFollower(w *lsw.World, out string, killAt int) *follower {
	f := &follower{w: w, out: out}
	if killAt > 0 {
		sup, err := ptracesup.Start([]string{drv.Bin()}, os.Environ(), ptracesup.Options{ScopeDir: filepath.Dir(out), KillAt: killAt})
		if err != nil {
			panic(fmt.Sprintf("harness: start traced follower: %v", err))
		}
		f.sup = sup
		f.proc = drv.Attach(sup.Cmd, sup.Stdin, sup.Stdout, sup.Stderr)
	} else {
		p, err := drv.Start()
		if err != nil {
			panic(fmt.Sprintf("harness: start follower: %v", err))
		}
		f.proc = p
	}
	if err := f.proc.Send(map[string]any{"op": "restore", "replica": w.ReplicaDir, "out": out, "follow": true, "follow_ms": 2}); err != nil {
		panic(fmt.Sprintf("harness: send follow: %v", err))
	}
	f.reply = make(chan drv.Reply, 1)
	// do not return before the child has started the command: a SIGTERM sent earlier would hit a process that has not
	// installed its handler yet
	f.proc.WaitBegin()
	go func() { f.reply <- f.proc.Wait() }()
	return f
}

// stop terminates the follower cleanly (SIGTERM cancels follow mode) and returns its reply.
func (f *follower) stop() drv.Reply {
	if !f.ended() {
		f.proc.Term()
		r := <-f.reply
		f.got = &r
	}
	r := *f.got
	if !r.Crashed {
		f.proc.Close()
	}
	if f.sup != nil {
		if !f.sup.Done() {
			f.sup.KillNow()
		}
		f.sup.Wait()
	}
	return r
}

// waitDead waits for a traced follower to be killed by the supervisor (or to finish).
func (f *follower) waitKilled(maxPolls int) bool {
	for i := 0; i < maxPolls; i++ {
		if f.sup.Done() {
			return true
		}
		time.Sleep(2 * time.Millisecond)
	}
	return false
}

func execC16(c c16Case) (res core.Result) {
	w, err := lsw.NewWorld(c.Cfg, core.WorkDir("c16"))
	if err != nil {
		panic(fmt.Sprintf("harness: new world: %v", err))
	}
	defer w.Cleanup()
	if err := w.Attach(); err != nil {
		panic(fmt.Sprintf("harness: attach: %v", err))
	}
	ctx := context.Background()
	res.Key = core.HashJSON(c)
	outDir := filepath.Join(w.Dir, "follower")
	_ = os.MkdirAll(outDir, 0o755)
	out := filepath.Join(outDir, "f.db")
	var lastSidecar ltx.TXID
	bridged, killInApply, kills := false, false, 0
	pruned := false
	defer func() {
		if pruned {
			res.Labels = append(res.Labels, "lower-level-pruned")
		}
		if bridged {
			res.Labels = append(res.Labels, "resume-bridged-missing-l0")
		}
		if killInApply {
			res.Labels = append(res.Labels, "kill-inside-apply")
		}
		if kills > 0 {
			res.Labels = append(res.Labels, "follower-killed")
		}
		res.NonTrivial = bridged || killInApply
	}()
	runSlice := func(ops []lsw.Op) {
		for _, o := range ops {
			if o.K == "prune" {
				// TXID retention on level o.L, as the snapshot-retention cascade does it, limited to what the next level
				// up already holds (so that every TXID stays reachable): delete files that end before A% of that range
				var top ltx.TXID
				for _, f := range lsw.ListLTX(w.ReplicaDir) {
					if f.Level == o.L+1 && f.Max > top {
						top = f.Max
					}
				}
				if top > 0 && w.DB != nil {
					_ = w.DB.EnforceRetentionByTXID(w.Ctx(), o.L, 1+top*ltx.TXID(o.A)/100)
					pruned = true
				}
				continue
			}
			if lsw.IsLSOp(o.K) {
				w.LSStep(o)
			} else {
				w.AppStep(o)
			}
		}
	}
	observeSidecar := func(when string) *core.Violation {
		id, ok, err := readSidecar(out)
		if err != nil {
			return &core.Violation{Oracle: "sidecar-unparsable", Msg: when + ": " + err.Error()}
		}
		if ok {
			if id < lastSidecar {
				return &core.Violation{Oracle: "sidecar-regressed", Msg: fmt.Sprintf("%s: sidecar TXID went from %d back to %d", when, lastSidecar, id)}
			}
			lastSidecar = id
		}
		return nil
	}
	// converge waits (bounded by poll count, not by a time budget that could decide an outcome) until the sidecar reaches the replica's latest TXID
	converge := func(f *follower, when string) *core.Violation {
		latest := lsw.MaxL0(w.ReplicaDir)
		for _, rf := range lsw.ListLTX(w.ReplicaDir) {
			if rf.Max > latest {
				latest = rf.Max
			}
		}
		for poll := 0; poll < 4000; poll++ {
			if v := observeSidecar(when); v != nil {
				return v
			}
			if lastSidecar >= latest {
				return nil
			}
			if f.ended() {
				break
			}
			time.Sleep(2 * time.Millisecond)
		}
		if f.ended() && !f.got.OK {
			return &core.Violation{Oracle: "follower-ended", Msg: fmt.Sprintf("%s: follower ended before converging (sidecar %d, replica %d): %s %s", when, lastSidecar, latest, f.got.Err, f.got.Stderr)}
		}
		return &core.Violation{Oracle: "no-convergence", Msg: fmt.Sprintf("%s: replica is static at TXID %d, the follower stays at %d after 4000 polls", when, latest, lastSidecar)}
	}
	compare := func(when string) *core.Violation {
		id, ok, err := readSidecar(out)
		if err != nil || !ok {
			return &core.Violation{Oracle: "sidecar-unparsable", Msg: fmt.Sprintf("%s: sidecar missing or unreadable (%v)", when, err)}
		}
		ref := filepath.Join(w.Dir, "c16-ref.db")
		defer os.Remove(ref)
		if err := lsw.RestoreTo(ctx, w.ReplicaDir, ref, id, lsw.ZeroTime); err != nil {
			// the exact TXID may no longer be addressable (compacted away); the latest is, after convergence
			if err2 := lsw.RestoreTo(ctx, w.ReplicaDir, ref, 0, lsw.ZeroTime); err2 != nil {
				return &core.Violation{Oracle: "harness-restore", Msg: fmt.Sprintf("%s: reference restore failed: %v / %v", when, err, err2)}
			}
		}
		want, _ := os.ReadFile(ref)
		got, err := os.ReadFile(out)
		if err != nil {
			return &core.Violation{Oracle: "follower-file-missing", Msg: when + ": " + err.Error()}
		}
		res.Evals++
		if len(got) != len(want) {
			return &core.Violation{Oracle: "follower-size", Msg: fmt.Sprintf("%s: follower file has %d bytes, restore of TXID %d has %d", when, len(got), id, len(want))}
		}
		if !bytes.Equal(maskFollow(got), maskFollow(want)) {
			ps := c.Cfg.PageSize
			var diff []int
			g, wv := maskFollow(got), maskFollow(want)
			for pg := 0; (pg+1)*ps <= len(g) && len(diff) < 8; pg++ {
				if !bytes.Equal(g[pg*ps:(pg+1)*ps], wv[pg*ps:(pg+1)*ps]) {
					diff = append(diff, pg+1)
				}
			}
			return &core.Violation{Oracle: "follower-content", Msg: fmt.Sprintf("%s: follower differs from the restore of TXID %d in pages %v", when, id, diff)}
		}
		return nil
	}
	for ri, round := range c.Rounds {
		when := fmt.Sprintf("round %d", ri)
		before := lsw.ListLTX(w.ReplicaDir)
		runSlice(round.Ops)
		// does the follower have to bridge a level-0 gap on resume?
		if lastSidecar > 0 {
			have := map[ltx.TXID]bool{}
			for _, f := range lsw.ListLTX(w.ReplicaDir) {
				if f.Level == 0 {
					have[f.Max] = true
				}
			}
			if !have[lastSidecar+1] && lsw.MaxL0(w.ReplicaDir) > lastSidecar {
				bridged = true
			}
		}
		_ = before
		killAt := round.KillAt
		if killAt == 0 && round.KillPM > 0 {
			killAt = 1 + round.KillPM*120/10000 // a follower session issues on the order of 100 mutating calls
		}
		f := startFollower(w, out, killAt)
		if len(round.Live) > 0 {
			runSlice(round.Live)
			// The primary deletes level-0 files as soon as they are compacted (L0Retention is 1ns in these cases, minutes in
			// a real deployment exactly so that readers can finish). A follower that listed such a file and finds it gone
			// when it opens it ends with "no such file"; whether that happens depends on timing only. The user's answer
			// is to start it again, and so is the harness's: now that the primary is idle the race cannot recur.
			for tries := 0; tries < 3 && f.ended() && f.got != nil && !f.got.Crashed && c16RaceErr(f.got.Err); tries++ {
				f.stop()
				res.Labels = append(res.Labels, "restore-raced-with-retention")
				killAt = 0
				f = startFollower(w, out, 0)
				time.Sleep(20 * time.Millisecond)
			}
		}
		if killAt > 0 {
			// let it run into the kill point (it may also converge first and never reach call k)
			if f.waitKilled(1500) {
				if k, ev := f.sup.Killed(); k {
					kills++
					if ev != nil && ev.Path == out && (ev.Name == "pwrite" || ev.Name == "fsync" || ev.Name == "ftruncate" || ev.Name == "write") {
						killInApply = true
					}
					if ev != nil {
						res.Labels = append(res.Labels, "killed-before:"+ev.Name)
					}
				} else {
					// the child ended by itself: it must have reported an error
					r := <-f.reply
					f.got = &r
					f.sup.Wait()
					if r.Crashed {
						r.Stderr = "[traced follower: " + f.sup.ExitInfo() + "] " + r.Stderr + f.sup.Stderr.String()
					}
					if len(round.Live) > 0 && !r.Crashed && c16RaceErr(r.Err) {
						res.Labels = append(res.Labels, "restore-raced-with-retention") // see above; restarted below
					} else if v := c16Refusal(w, r, lastSidecar, when); v != nil {
						res.Violation = v
						return res
					}
				}
				if v := observeSidecar(when + " after kill"); v != nil {
					res.Violation = v
					return res
				}
				// restart untraced and converge
				f = startFollower(w, out, 0)
			}
		}
		v := converge(f, when)
		for tries := 0; v != nil && tries < 2 && len(round.Live) > 0 && f.ended() && f.got != nil && !f.got.Crashed && c16RaceErr(f.got.Err); tries++ {
			// same race as above, noticed a little later
			f.stop()
			res.Labels = append(res.Labels, "restore-raced-with-retention")
			f = startFollower(w, out, 0)
			v = converge(f, when)
		}
		if v != nil {
			r := f.stop()
			if !r.OK && !r.Crashed && r.Err != "" {
				if v2 := c16Refusal(w, r, lastSidecar, when); v2 != nil {
					res.Violation = v2
					return res
				}
				res.Labels = append(res.Labels, "resume-refused-as-documented")
				return res
			}
			res.Violation = v
			return res
		}
		r := f.stop()
		if r.Crashed && f.sup != nil {
			if k, _ := f.sup.Killed(); k {
				// the kill point was only reached while the follower was shutting down: an ordinary kill, after which it
				// must resume and converge like after any other
				kills++
				if v := observeSidecar(when + " after kill during shutdown"); v != nil {
					res.Violation = v
					return res
				}
				f = startFollower(w, out, 0)
				if v := converge(f, when+" (after kill during shutdown)"); v != nil {
					f.stop()
					res.Violation = v
					return res
				}
				r = f.stop()
			}
		}
		if r.Crashed {
			res.Violation = &core.Violation{Oracle: "follower-crashed", Msg: when + ": [at stop after convergence] " + r.Stderr}
			return res
		}
		if v := compare(when); v != nil {
			res.Violation = v
			return res
		}
	}
	return res
}

// c16Refusal decides whether a follower that ended with an error did so for one of the two documented reasons.
func c16Refusal(w *lsw.World, r drv.Reply, sidecar ltx.TXID, when string) *core.Violation {
	if r.Crashed {
		return &core.Violation{Oracle: "follower-crashed", Msg: when + ": [follow command ended by itself] " + r.Stderr}
	}
	if r.OK {
		return nil
	}
	if strings.Contains(r.Err, "cannot resume follow mode") {
		var latestSnap *lsw.RFile
		for _, f := range lsw.ListLTX(w.ReplicaDir) {
			if f.Level == litestream.SnapshotLevel {
				ff := f
				latestSnap = &ff
			}
		}
		if strings.Contains(r.Err, "behind the earliest snapshot") && latestSnap != nil && latestSnap.Min > sidecar {
			return nil
		}
		if strings.Contains(r.Err, "ahead of latest snapshot") && latestSnap != nil && sidecar > latestSnap.Max {
			// documented refusal; but the property demands a resume whenever the replica still holds the saved TXID's successors
			return &core.Violation{Oracle: "resume-refused", Msg: fmt.Sprintf("%s: follower refuses to resume from its sidecar TXID %d because the latest snapshot ends at %d, although the replica continues beyond %d (max TXID %d): %s", when, sidecar, latestSnap.Max, sidecar, lsw.MaxL0(w.ReplicaDir), r.Err),
				Shapes: []string{"resume-refused-ahead-of-snapshot"}}
		}
	}
	return &core.Violation{Oracle: "follower-error", Msg: fmt.Sprintf("%s: follower ended with an error: %s", when, r.Err)}
}

// c16RaceErr recognises the two ways a restore fails when level-0 retention (1ns in these cases) removes files
// between the restore's listing of one level and its listing or opening of the next: the file is gone, or no chain
// can be formed from the inconsistent listing. Only consulted for rounds in which the primary ran concurrently.
func c16RaceErr(msg string) bool {
	return strings.Contains(msg, "no such file or directory") || strings.Contains(msg, "transaction not available") || strings.Contains(msg, "non-contiguous")
}

func TestProp_C16(t *testing.T) {
	core.Check(t, "C16", genC16, execC16)
}
