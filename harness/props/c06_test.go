package props

// C06 — compaction never changes what is restored; levels stay contiguous.

import (
	"bytes"
	"context"
	"crypto/sha256"
	"fmt"
	"os"
	"path/filepath"
	"sort"
	"testing"

	"github.com/superfly/ltx"
	"pgregory.net/rapid"

	"verifharness/core"
	"verifharness/lsw"
)

func genC06(t *rapid.T) lsw.Case {
	c := genRepHist(t, core.Thorough(), false, false)
	// a third of the histories continue with a compaction ladder: rounds of (writes, level-1 compactions - one or
	// several per round -, then the higher levels in order), so that higher-level compactions see exactly one new
	// source file in some rounds and several in others, and every level is compacted repeatedly
	if rapid.IntRange(0, 2).Draw(t, "ladder") == 0 {
		if c.Cfg.Levels < 3 {
			c.Cfg.Levels = rapid.IntRange(3, 4).Draw(t, "ladderLevels")
		}
		top := rapid.IntRange(2, c.Cfg.Levels).Draw(t, "ladderTop")
		for r, n := 0, rapid.IntRange(3, 5).Draw(t, "ladderRounds"); r < n; r++ {
			for k := rapid.IntRange(1, 3).Draw(t, "l1PerRound"); k > 0; k-- {
				if rapid.Bool().Draw(t, "ladderUpd") {
					c.Ops = append(c.Ops, lsw.Op{K: "update", T: 0, A: 0, B: rapid.IntRange(10, 100).Draw(t, "b")})
				} else {
					c.Ops = append(c.Ops, lsw.Op{K: "insert", T: 0, N: rapid.SampledFrom([]int{1, 5, 12}).Draw(t, "n"), S: 1})
				}
				c.Ops = append(c.Ops, lsw.Op{K: "syncwait"}, lsw.Op{K: "compact", L: 1})
			}
			for l := 2; l <= top; l++ {
				if rapid.IntRange(0, 9).Draw(t, "skipLevel") < 8 {
					c.Ops = append(c.Ops, lsw.Op{K: "compact", L: l})
				}
			}
		}
		c.Ops = append(c.Ops, lsw.Op{K: "syncwait"})
	}
	return c
}

func restoreHash(ctx context.Context, replicaDir, scratch string, txid ltx.TXID) (string, error) {
	out := filepath.Join(scratch, fmt.Sprintf("rh-%d-%d.db", txid, os.Getpid()))
	defer os.Remove(out)
	if err := lsw.RestoreTo(ctx, replicaDir, out, txid, lsw.ZeroTime); err != nil {
		return "", err
	}
	b, err := os.ReadFile(out)
	if err != nil {
		return "", err
	}
	h := sha256.Sum256(b)
	return fmt.Sprintf("%x/%d", h[:8], len(b)), nil
}

// l0OnlyDir materialises an L0-only replica from the archive.
func l0OnlyDir(w *lsw.World) string {
	dir := filepath.Join(w.Dir, "l0only")
	_ = os.RemoveAll(dir)
	_ = os.MkdirAll(filepath.Join(dir, "ltx", "0"), 0o755)
	ents, _ := os.ReadDir(w.ArchiveDir)
	for _, e := range ents {
		b, err := os.ReadFile(filepath.Join(w.ArchiveDir, e.Name()))
		if err == nil {
			_ = os.WriteFile(filepath.Join(dir, "ltx", "0", e.Name()), b, 0o644)
		}
	}
	return dir
}

func checkLevelsContiguous(files []lsw.RFile) *core.Violation {
	for lvl, fs := range levelFiles(files) {
		if lvl == 9 {
			continue
		}
		sort.Slice(fs, func(i, j int) bool { return fs[i].Min < fs[j].Min })
		for i := 1; i < len(fs); i++ {
			if fs[i].Min != fs[i-1].Max+1 {
				kind := "gap"
				if fs[i].Min <= fs[i-1].Max {
					kind = "overlap"
				}
				return &core.Violation{Oracle: "level-contiguity", Msg: fmt.Sprintf("level %d: %s between %d-%d and %d-%d", lvl, kind, fs[i-1].Min, fs[i-1].Max, fs[i].Min, fs[i].Max)}
			}
		}
	}
	return nil
}

func execC06(c lsw.Case) (res core.Result) {
	w, err := lsw.NewWorld(c.Cfg, core.WorkDir("c06"))
	if err != nil {
		panic(fmt.Sprintf("harness: new world: %v", err))
	}
	defer w.Cleanup()
	if err := w.Attach(); err != nil {
		panic(fmt.Sprintf("harness: attach: %v", err))
	}
	ctx := context.Background()
	res.Key = core.HashStrings(c.Abstract())
	var sawShrink, sawFullInChain, sawMultiHigh bool
	compactions := 0
	defer func() {
		c01Labels(w, &res)
		add := func(b bool, l string) {
			if b {
				res.Labels = append(res.Labels, l)
			}
		}
		add(sawShrink, "compaction-over-shrink")
		add(sawFullInChain, "compaction-over-inchain-snapshot")
		add(sawMultiHigh, "compaction-of-2+-files-at-level>=2")
		add(compactions > 0, "compacted")
		res.Labels = append(res.Labels, fmt.Sprintf("levels:%d", c.Cfg.Levels))
		res.NonTrivial = sawShrink || sawFullInChain || sawMultiHigh
		if res.Notes == nil {
			res.Notes = map[string]int{}
		}
		res.Notes["compactions"] += compactions
	}()
	for i, o := range c.Ops {
		if !lsw.IsLSOp(o.K) {
			w.AppStep(o)
			continue
		}
		isCompaction := o.K == "compact" || o.K == "compactdb" || o.K == "snapshot"
		var before []lsw.RFile
		beforeHash := map[ltx.TXID]string{}
		if isCompaction {
			before = lsw.ListLTX(w.ReplicaDir)
			// sample up to 3 restorable TXIDs: the latest L0, the first, and one in the middle
			var l0 []ltx.TXID
			for _, f := range before {
				if f.Level == 0 {
					l0 = append(l0, f.Max)
				}
			}
			if len(l0) > 0 {
				for _, n := range []ltx.TXID{l0[0], l0[len(l0)/2], l0[len(l0)-1]} {
					if _, ok := beforeHash[n]; ok {
						continue
					}
					h, err := restoreHash(ctx, w.ReplicaDir, w.Dir, n)
					if err == nil {
						beforeHash[n] = h
					}
				}
			}
		}
		sr := w.LSStep(o)
		w.ArchiveL0()
		if !isCompaction || sr.Err != nil {
			continue
		}
		after := lsw.ListLTX(w.ReplicaDir)
		bk := fileSetKey(before)
		var created []lsw.RFile
		for _, f := range after {
			if !bk[fmt.Sprintf("%d/%d-%d", f.Level, f.Min, f.Max)] {
				created = append(created, f)
			}
		}
		if v := checkLevelsContiguous(after); v != nil {
			v.Msg = fmt.Sprintf("after step %d (%s): %s", i, o, v.Msg)
			res.Violation = v
			return res
		}
		for _, nf := range created {
			if nf.Level == 0 {
				continue
			}
			compactions++
			res.Evals++
			got, err := decodeLTX(nf.Path)
			if err != nil {
				res.Violation = &core.Violation{Oracle: "compacted-undecodable", Msg: fmt.Sprintf("after step %d (%s): new file L%d %d-%d does not decode: %v", i, o, nf.Level, nf.Min, nf.Max, err)}
				return res
			}
			if got.Hdr.MinTXID != nf.Min || got.Hdr.MaxTXID != nf.Max {
				res.Violation = &core.Violation{Oracle: "compacted-header-range", Msg: fmt.Sprintf("file named %d-%d has header %d-%d", nf.Min, nf.Max, got.Hdr.MinTXID, got.Hdr.MaxTXID)}
				return res
			}
			// each compaction starts where the previous file of that level ended
			if nf.Level != 9 {
				var prevMax ltx.TXID
				for _, f := range before {
					if f.Level == nf.Level && f.Max > prevMax {
						prevMax = f.Max
					}
				}
				if nf.Min != prevMax+1 {
					res.Violation = &core.Violation{Oracle: "compaction-start", Msg: fmt.Sprintf("after step %d (%s): new L%d file starts at %d, previous file of that level ended at %d", i, o, nf.Level, nf.Min, prevMax)}
					return res
				}
			}
			want, commit, maxTS, _, err := recompose(w.ArchiveDir, nf.Min, nf.Max)
			if err != nil {
				res.Violation = &core.Violation{Oracle: "harness-recompose", Msg: err.Error()}
				return res
			}
			if got.Hdr.Commit != commit {
				res.Violation = &core.Violation{Oracle: "compacted-commit", Msg: fmt.Sprintf("after step %d (%s): L%d %d-%d has commit %d, applying level-0 files %d..%d in order gives %d", i, o, nf.Level, nf.Min, nf.Max, got.Hdr.Commit, nf.Min, nf.Max, commit)}
				return res
			}
			if len(got.Pages) != len(want) {
				res.Violation = &core.Violation{Oracle: "compacted-pageset", Msg: fmt.Sprintf("after step %d (%s): L%d %d-%d holds %d pages, applying level-0 files in order gives %d", i, o, nf.Level, nf.Min, nf.Max, len(got.Pages), len(want))}
				return res
			}
			for pg, d := range want {
				g, ok := got.Pages[pg]
				if !ok {
					res.Violation = &core.Violation{Oracle: "compacted-pageset", Msg: fmt.Sprintf("after step %d (%s): L%d %d-%d lacks page %d", i, o, nf.Level, nf.Min, nf.Max, pg)}
					return res
				}
				if !bytes.Equal(g, d) {
					res.Violation = &core.Violation{Oracle: "compacted-page-image", Msg: fmt.Sprintf("after step %d (%s): L%d %d-%d page %d differs from the latest level-0 image", i, o, nf.Level, nf.Min, nf.Max, pg)}
					return res
				}
			}
			if nf.Level != 9 && got.Hdr.Timestamp != maxTS {
				res.Violation = &core.Violation{Oracle: "compacted-timestamp", Msg: fmt.Sprintf("after step %d (%s): L%d %d-%d carries timestamp %d, newest input has %d", i, o, nf.Level, nf.Min, nf.Max, got.Hdr.Timestamp, maxTS)}
				return res
			}
			if nf.Mod.UnixMilli() != got.Hdr.Timestamp {
				res.Violation = &core.Violation{Oracle: "file-createdat", Msg: fmt.Sprintf("L%d %d-%d: file time %d differs from its header timestamp %d", nf.Level, nf.Min, nf.Max, nf.Mod.UnixMilli(), got.Hdr.Timestamp)}
				return res
			}
			// classification of the input range
			var prevCommit uint32
			for n := nf.Min; n <= nf.Max; n++ {
				cc, err := decodeLTX(filepath.Join(w.ArchiveDir, ltx.FormatFilename(n, n)))
				if err != nil {
					continue
				}
				if prevCommit != 0 && cc.Hdr.Commit < prevCommit {
					sawShrink = true
				}
				if n > 1 && n > nf.Min && uint32(len(cc.Pages)) == cc.Hdr.Commit && cc.Hdr.Commit > 1 {
					sawFullInChain = true
				}
				prevCommit = cc.Hdr.Commit
			}
			if nf.Level >= 2 && nf.Level != 9 {
				cnt := 0
				for _, f := range before {
					if f.Level == nf.Level-1 && f.Min >= nf.Min && f.Max <= nf.Max {
						cnt++
					}
				}
				if cnt >= 2 {
					sawMultiHigh = true
				}
			}
		}
		// metamorphic: restoring a TXID gives the same bytes before and after, and the same as level-0 files alone
		if len(beforeHash) > 0 && len(created) > 0 {
			l0dir := l0OnlyDir(w)
			for n, hb := range beforeHash {
				ha, err := restoreHash(ctx, w.ReplicaDir, w.Dir, n)
				if err != nil {
					res.Violation = &core.Violation{Oracle: "restore-lost", Msg: fmt.Sprintf("after step %d (%s): TXID %d was restorable before the compaction, now: %v", i, o, n, err)}
					return res
				}
				res.Evals++
				if ha != hb {
					res.Violation = &core.Violation{Oracle: "restore-changed", Msg: fmt.Sprintf("after step %d (%s): restore of TXID %d changed from %s to %s", i, o, n, hb, ha)}
					return res
				}
				h0, err := restoreHash(ctx, l0dir, w.Dir, n)
				if err != nil {
					res.Violation = &core.Violation{Oracle: "harness-l0only", Msg: fmt.Sprintf("level-0-only restore of %d: %v", n, err)}
					return res
				}
				if h0 != ha {
					res.Violation = &core.Violation{Oracle: "restore-depends-on-plan", Msg: fmt.Sprintf("after step %d (%s): restore of TXID %d gives %s through the plan but %s from level-0 files alone", i, o, n, ha, h0)}
					return res
				}
			}
			os.RemoveAll(l0dir)
		}
	}
	// final: every TXID that is the end of some file restores identically through the plan and through L0 alone
	final := lsw.ListLTX(w.ReplicaDir)
	ends := map[ltx.TXID]bool{}
	for _, f := range final {
		if f.Level > 0 {
			ends[f.Max] = true
		}
	}
	l0dir := l0OnlyDir(w)
	defer os.RemoveAll(l0dir)
	for n := range ends {
		hp, err := restoreHash(ctx, w.ReplicaDir, w.Dir, n)
		if err != nil {
			res.Violation = &core.Violation{Oracle: "restore-lost", Msg: fmt.Sprintf("final: TXID %d ends a file on the replica but cannot be restored: %v", n, err)}
			return res
		}
		h0, err := restoreHash(ctx, l0dir, w.Dir, n)
		if err != nil {
			continue // the L0 file was not archived (never uploaded): nothing to compare with
		}
		res.Evals++
		if hp != h0 {
			res.Violation = &core.Violation{Oracle: "restore-depends-on-plan", Msg: fmt.Sprintf("final: restore of TXID %d gives %s through the plan but %s from level-0 files alone", n, hp, h0)}
			return res
		}
	}
	return res
}

func TestProp_C06(t *testing.T) {
	core.Check(t, "C06", genC06, execC06)
}
