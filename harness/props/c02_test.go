package props

// C02 — every replicated TXID is one consistent committed state; TXIDs monotone;
// level-0 TXIDs gapless from 1.

import (
	"context"
	"fmt"
	"os"
	"path/filepath"
	"sort"
	"testing"

	"github.com/superfly/ltx"
	"pgregory.net/rapid"

	"verifharness/core"
	"verifharness/lsw"
)

func genLSOpC02(t *rapid.T, cfg lsw.Config) lsw.Op {
	k := rapid.SampledFrom([]string{"sync", "sync", "sync", "sync", "syncwait", "syncwait", "rsync", "lsckpt", "lsckpt", "snapshot", "snapshot", "compact"}).Draw(t, "lsop")
	switch k {
	case "lsckpt":
		return lsw.Op{K: k, M: rapid.SampledFrom([]string{"PASSIVE", "PASSIVE", "FULL", "RESTART", "TRUNCATE"}).Draw(t, "mode")}
	case "compact":
		return lsw.Op{K: k, L: rapid.IntRange(1, cfg.Levels).Draw(t, "level")}
	}
	return lsw.Op{K: k}
}

// genLSOpC02I is genLSOpC02 plus, for a quarter of the ops, application activity placed by the harness between
// litestream's own steps (see C01's interleaved run): commits that land while the WAL is being read or the LTX file
// written, during the checkpoint sequence, or while a snapshot is being encoded.
func genLSOpC02I(t *rapid.T, cfg lsw.Config, m *lsw.GenModel) lsw.Op {
	o := genLSOpC02(t, cfg)
	if rapid.IntRange(0, 3).Draw(t, "interleave") == 0 {
		o.X = genInterleave(t, m, o.K)
	}
	return o
}

func genC02(t *rapid.T) lsw.Case {
	cfg := lsw.GenConfig(t, core.Thorough())
	cfg.SmallCache = rapid.IntRange(0, 4).Draw(t, "smallcache") > 0
	cfg.MaxSyncFr = rapid.SampledFrom([]int{1, 1, 3, 3, 0, -1}).Draw(t, "msf")
	m := lsw.NewGenModel(cfg)
	var ops []lsw.Op
	if rapid.Bool().Draw(t, "coldStart") {
		// litestream's first (snapshot-type) sync finds a database with history: base content already checkpointed
		// into the database file, committed transactions in the WAL, some of them backfilled by an application
		// checkpoint that a long reader kept from completing (so the WAL cannot restart)
		for i, n := 0, rapid.IntRange(1, 4).Draw(t, "coldBase"); i < n; i++ {
			ops = append(ops, lsw.Op{K: "insert", T: 0, N: rapid.SampledFrom([]int{5, 12, 30}).Draw(t, "n"), S: rapid.SampledFrom([]int{1, 2, 2, 3}).Draw(t, "size")})
		}
		if rapid.IntRange(0, 9).Draw(t, "coldBaseCkpt") < 8 {
			ops = append(ops, lsw.Op{K: "appckpt", C: 0, M: rapid.SampledFrom([]string{"TRUNCATE", "TRUNCATE", "RESTART", "FULL", "PASSIVE"}).Draw(t, "coldBaseMode")})
		}
		reader := rapid.IntRange(0, 9).Draw(t, "coldReader") < 7
		if reader {
			ops = append(ops, lsw.Op{K: "openconn", C: 1})
			m.ConnOpen[1] = true
		}
		readerAt := rapid.IntRange(0, 3).Draw(t, "coldReaderAt")
		nw := rapid.IntRange(2, 5).Draw(t, "coldWrites")
		for i := 0; i < nw; i++ {
			if reader && i == readerAt {
				ops = append(ops, lsw.Op{K: "beginread", C: 1})
				m.Tx[1] = 1
			}
			if rapid.IntRange(0, 3).Draw(t, "coldKind") == 0 {
				ops = append(ops, m.AppOp(t))
			} else {
				a := rapid.IntRange(0, 100).Draw(t, "a")
				ops = append(ops, lsw.Op{K: "update", T: 0, A: a, B: rapid.IntRange(a, 100).Draw(t, "b")})
			}
		}
		if rapid.IntRange(0, 9).Draw(t, "coldCkpt") < 8 && m.ConnOpen[0] && m.Tx[0] == 0 {
			ops = append(ops, lsw.Op{K: "appckpt", C: 0, M: rapid.SampledFrom([]string{"PASSIVE", "PASSIVE", "FULL"}).Draw(t, "coldMode")})
		}
		if m.Tx[1] == 1 && rapid.IntRange(0, 9).Draw(t, "coldEndRead") < 7 {
			ops = append(ops, lsw.Op{K: "endread", C: 1})
			m.Tx[1] = 0
		}
	}
	ops = append(ops, lsw.Op{K: "sync"})
	blocks := rapid.IntRange(3, 10).Draw(t, "blocks")
	if core.Thorough() {
		blocks = rapid.IntRange(3, 18).Draw(t, "blocksT")
	}
	for b := 0; b < blocks; b++ {
		switch rapid.IntRange(0, 9).Draw(t, "block") {
		case 0, 1, 2, 3, 4:
			// explicit multi-statement transaction on conn 0 with litestream ops between statements
			if m.Writer != -1 || !m.ConnOpen[0] || m.Tx[0] != 0 {
				ops = append(ops, m.AppOp(t))
				continue
			}
			ops = append(ops, lsw.Op{K: "begin"})
			m.Tx[0], m.Writer = 2, 0
			n := rapid.IntRange(1, 4).Draw(t, "stmts")
			for i := 0; i < n; i++ {
				if rapid.IntRange(0, 2).Draw(t, "stmtKind") == 0 {
					a := rapid.IntRange(0, 100).Draw(t, "a")
					ops = append(ops, lsw.Op{K: "update", T: 0, A: a, B: rapid.IntRange(a, 100).Draw(t, "b")})
				} else {
					ops = append(ops, lsw.Op{K: "insert", T: 0, N: rapid.SampledFrom([]int{1, 3, 8, 20}).Draw(t, "n"), S: rapid.SampledFrom([]int{1, 2, 2, 3}).Draw(t, "size")})
				}
				for rapid.IntRange(0, 2).Draw(t, "lsBetween") == 0 {
					ops = append(ops, genLSOpC02I(t, cfg, m))
				}
			}
			if rapid.IntRange(0, 2).Draw(t, "rollback") == 0 {
				ops = append(ops, lsw.Op{K: "rollback"})
			} else {
				ops = append(ops, lsw.Op{K: "commit"})
			}
			m.Tx[0], m.Writer = 0, -1
		case 5, 6:
			ops = append(ops, m.AppOp(t))
		default:
			ops = append(ops, genLSOpC02I(t, cfg, m))
		}
	}
	ops = append(ops, m.CloseOutTx()...)
	ops = append(ops, lsw.Op{K: "syncwait"})
	return lsw.Case{Cfg: cfg, Ops: ops}
}

// checkAllTXIDs is the C02 oracle over the current replica content.
func checkAllTXIDs(w *lsw.World) (*core.Violation, int) {
	ctx := context.Background()
	files := lsw.ListLTX(w.ReplicaDir)
	// (i) L0 is exactly n-n for n = 1..max
	var l0 []lsw.RFile
	maxSet := map[ltx.TXID]bool{}
	for _, f := range files {
		if f.Level == 0 {
			l0 = append(l0, f)
		}
		maxSet[f.Max] = true
	}
	for i, f := range l0 {
		if f.Min != f.Max || f.Min != ltx.TXID(i+1) {
			return &core.Violation{Oracle: "l0-gapless", Msg: fmt.Sprintf("level-0 file #%d is %s-%s, expected %d-%d", i, f.Min, f.Max, i+1, i+1)}, 0
		}
	}
	var txids []ltx.TXID
	for n := range maxSet {
		txids = append(txids, n)
	}
	sort.Slice(txids, func(i, j int) bool { return txids[i] < txids[j] })
	// L0-only replica for the snapshot comparison
	l0only := filepath.Join(w.Dir, "l0only")
	_ = os.RemoveAll(l0only)
	_ = os.MkdirAll(filepath.Join(l0only, "ltx", "0"), 0o755)
	for _, f := range l0 {
		b, err := os.ReadFile(f.Path)
		if err != nil {
			return &core.Violation{Oracle: "harness", Msg: err.Error()}, 0
		}
		_ = os.WriteFile(filepath.Join(l0only, "ltx", "0", filepath.Base(f.Path)), b, 0o644)
		_ = os.Chtimes(filepath.Join(l0only, "ltx", "0", filepath.Base(f.Path)), f.Mod, f.Mod)
	}
	defer os.RemoveAll(l0only)

	evals := 0
	lastV := int64(-1)
	type st struct {
		v int64
		d string
	}
	states := map[ltx.TXID]st{}
	for _, n := range txids {
		out := filepath.Join(w.Dir, fmt.Sprintf("c02-%d.db", n))
		if err := lsw.RestoreTo(ctx, w.ReplicaDir, out, n, lsw.ZeroTime); err != nil {
			os.Remove(out)
			return &core.Violation{Oracle: "txid-restore-error", Msg: fmt.Sprintf("TXID %d is listed on the replica but restore to it fails: %v", n, err)}, evals
		}
		v, d, ic, err := lsw.InspectFile(ctx, out)
		os.Remove(out)
		os.Remove(out + "-wal")
		os.Remove(out + "-shm")
		evals++
		if err != nil {
			return &core.Violation{Oracle: "txid-unreadable", Msg: fmt.Sprintf("restore of TXID %d is not a readable database: %v", n, err)}, evals
		}
		if ic != "ok" {
			return &core.Violation{Oracle: "txid-integrity", Msg: fmt.Sprintf("restore of TXID %d fails integrity_check: %s", n, ic)}, evals
		}
		want, ok := w.Ledger[v]
		if !ok {
			return &core.Violation{Oracle: "txid-not-a-commit", Msg: fmt.Sprintf("restore of TXID %d has version stamp %d which no application commit produced", n, v)}, evals
		}
		if want != d {
			return &core.Violation{Oracle: "txid-mixed-state", Msg: fmt.Sprintf("restore of TXID %d (version %d) has digest %s, the commit with that version had %s: mixture of commits or uncommitted/rolled-back data", n, v, d, want)}, evals
		}
		if v < lastV {
			return &core.Violation{Oracle: "txid-monotone", Msg: fmt.Sprintf("TXID %d restores version %d, an earlier TXID restores version %d", n, v, lastV)}, evals
		}
		lastV = v
		states[n] = st{v, d}
	}
	// (iv) every snapshot 1-n equals the L0-only restore of n
	for _, f := range files {
		if f.Level != 9 {
			continue
		}
		if f.Max > ltx.TXID(len(l0)) {
			continue // L0 file not yet uploaded
		}
		out := filepath.Join(w.Dir, fmt.Sprintf("c02-l0-%d.db", f.Max))
		if err := lsw.RestoreTo(ctx, l0only, out, f.Max, lsw.ZeroTime); err != nil {
			os.Remove(out)
			return &core.Violation{Oracle: "harness-l0only", Msg: fmt.Sprintf("L0-only restore of %d failed: %v", f.Max, err)}, evals
		}
		v, d, _, err := lsw.InspectFile(ctx, out)
		os.Remove(out)
		os.Remove(out + "-wal")
		os.Remove(out + "-shm")
		evals++
		if err != nil {
			return &core.Violation{Oracle: "harness-l0only", Msg: err.Error()}, evals
		}
		if s := states[f.Max]; s.v != v || s.d != d {
			return &core.Violation{Oracle: "snapshot-position", Msg: fmt.Sprintf("snapshot 1-%d restores version %d/%s but level-0 files 1..%d give version %d/%s", f.Max, s.v, s.d, f.Max, v, d)}, evals
		}
	}
	return nil, evals
}

func execC02(c lsw.Case) (res core.Result) {
	w, err := lsw.NewWorld(c.Cfg, core.WorkDir("c02"))
	if err != nil {
		panic(fmt.Sprintf("harness: new world: %v", err))
	}
	defer w.Cleanup()
	if err := w.Attach(); err != nil {
		panic(fmt.Sprintf("harness: attach: %v", err))
	}
	res.Key = core.HashStrings(c.Abstract())
	defer func() {
		c01Labels(w, &res)
		res.NonTrivial = w.Obs.SyncWithSpill > 0 || w.Obs.RollbackSpilled > 0
	}()
	mid1, mid2 := len(c.Ops)/3, 2*len(c.Ops)/3
	for i, o := range c.Ops {
		if lsw.IsLSOp(o.K) {
			w.LSStep(o)
		} else {
			w.AppStep(o)
		}
		if os.Getenv("VERIF_TRACE") != "" {
			fmt.Printf("TRACE step %d %-28s v=%d %s\n", i, o.String(), w.LastV, w.TraceState())
		}
		if i == mid1 || i == mid2 || i == len(c.Ops)-1 {
			v, n := checkAllTXIDs(w)
			res.Evals += n
			if v != nil {
				v.Msg = fmt.Sprintf("after step %d (%s): %s", i, o, v.Msg)
				res.Violation = v
				return res
			}
		}
	}
	return res
}

func TestProp_C02(t *testing.T) {
	core.Check(t, "C02", genC02, execC02)
}
