package props

// C08 — restore plans are valid chains and are found whenever one exists.
//
// Generator: arbitrary sets of (level, min, max, createdAt) files served by an
// in-memory ReplicaClient exactly the way the file client serves them (sorted
// slice iterator, seek filter on MinTXID), plus a target (latest | TXID | time).
// Oracle: brute-force reachability (R5) that shares no code with CalcRestorePlan.

import (
	"context"
	"fmt"
	"io"
	"log/slog"
	"os"
	"sort"
	"testing"
	"time"

	"github.com/benbjohnson/litestream"
	"github.com/superfly/ltx"
	"pgregory.net/rapid"

	"verifharness/core"
)

type c08File struct {
	Level int `json:"l"`
	Min   int `json:"a"`
	Max   int `json:"b"`
	TS    int `json:"t"` // index into the instant grid (seconds after base)
}

type c08Case struct {
	Files  []c08File `json:"files"`
	Target string    `json:"target"` // "latest" | "txid" | "time"
	TXID   int       `json:"txid,omitempty"`
	TimeHS int       `json:"time_hs,omitempty"` // half-seconds after base (so midpoints are expressible)
}

var c08Base = time.Date(2024, 1, 1, 0, 0, 0, 0, time.UTC)

type memListClient struct{ files []*ltx.FileInfo }

func (c *memListClient) Type() string                   { return "mem" }
func (c *memListClient) Init(ctx context.Context) error { return nil }
func (c *memListClient) SetLogger(*slog.Logger)         {}
func (c *memListClient) LTXFiles(ctx context.Context, level int, seek ltx.TXID, useMetadata bool) (ltx.FileIterator, error) {
	var a []*ltx.FileInfo
	for _, f := range c.files {
		if f.Level != level || f.MinTXID < seek {
			continue
		}
		cp := *f
		a = append(a, &cp)
	}
	return ltx.NewFileInfoSliceIterator(a), nil
}
func (c *memListClient) OpenLTXFile(ctx context.Context, level int, minTXID, maxTXID ltx.TXID, offset, size int64) (io.ReadCloser, error) {
	return nil, os.ErrNotExist
}
func (c *memListClient) WriteLTXFile(ctx context.Context, level int, minTXID, maxTXID ltx.TXID, r io.Reader) (*ltx.FileInfo, error) {
	return nil, fmt.Errorf("read-only")
}
func (c *memListClient) DeleteLTXFiles(ctx context.Context, a []*ltx.FileInfo) error { return nil }
func (c *memListClient) DeleteAll(ctx context.Context) error                        { return nil }

// bruteReach is R5: the set of TXIDs reachable as the end of a valid chain
// using only eligible files. O(n^2) fixpoint, deliberately naive.
func bruteReach(files []c08File, eligible func(c08File) bool) map[int]bool {
	reach := map[int]bool{0: true}
	for changed := true; changed; {
		changed = false
		for _, f := range files {
			if !eligible(f) {
				continue
			}
			if reach[f.Max] {
				continue
			}
			for cur := range reach {
				ok := false
				if cur == 0 {
					ok = f.Min == 1
				} else {
					ok = f.Min <= cur+1 && f.Max > cur
				}
				if ok {
					reach[f.Max] = true
					changed = true
					break
				}
			}
		}
	}
	delete(reach, 0)
	return reach
}

var discardLogger = slog.New(slog.NewTextHandler(io.Discard, nil))

func execC08(c c08Case) core.Result {
	res := core.Result{}
	client := &memListClient{}
	for _, f := range c.Files {
		client.files = append(client.files, &ltx.FileInfo{
			Level: f.Level, MinTXID: ltx.TXID(f.Min), MaxTXID: ltx.TXID(f.Max),
			Size: 1000, CreatedAt: c08Base.Add(time.Duration(f.TS) * time.Second),
		})
	}
	var txid ltx.TXID
	var ts time.Time
	switch c.Target {
	case "txid":
		txid = ltx.TXID(c.TXID)
	case "time":
		ts = c08Base.Add(time.Duration(c.TimeHS) * 500 * time.Millisecond)
	}

	eligible := func(f c08File) bool {
		if c.Target == "txid" && f.Max > c.TXID {
			return false
		}
		if c.Target == "time" && !(time.Duration(f.TS)*time.Second < time.Duration(c.TimeHS)*500*time.Millisecond) {
			return false
		}
		return true
	}
	reach := bruteReach(c.Files, eligible)
	maxReach := 0
	for r := range reach {
		if r > maxReach {
			maxReach = r
		}
	}

	plan, err := litestream.CalcRestorePlan(context.Background(), client, txid, ts, discardLogger)

	// classification
	overlap, dupRange, bridged := false, false, false
	for i, a := range c.Files {
		for j, b := range c.Files {
			if i >= j {
				continue
			}
			if a.Level == b.Level && a.Min <= b.Max && b.Min <= a.Max {
				overlap = true
			}
			if a.Level != b.Level && a.Min == b.Min && a.Max == b.Max {
				dupRange = true
			}
		}
	}
	// gap at one level bridged by another: some level has two files f<g with a hole, and the hole's txids are covered elsewhere
	byLevel := map[int][]c08File{}
	for _, f := range c.Files {
		byLevel[f.Level] = append(byLevel[f.Level], f)
	}
	for lvl, fs := range byLevel {
		if lvl == 9 {
			continue
		}
		sort.Slice(fs, func(i, j int) bool { return fs[i].Min < fs[j].Min })
		for i := 1; i < len(fs); i++ {
			if fs[i].Min > fs[i-1].Max+1 {
				for _, o := range c.Files {
					if o.Level != lvl && o.Min <= fs[i-1].Max+1 && o.Max >= fs[i].Min-1 {
						bridged = true
					}
				}
			}
		}
	}
	if overlap {
		res.Labels = append(res.Labels, "overlap")
	}
	if dupRange {
		res.Labels = append(res.Labels, "dup-range")
	}
	if bridged {
		res.Labels = append(res.Labels, "bridged-gap")
	}
	res.Labels = append(res.Labels, "target:"+c.Target)
	if err != nil {
		res.Labels = append(res.Labels, "outcome:error")
	} else {
		res.Labels = append(res.Labels, "outcome:plan")
	}
	res.NonTrivial = overlap || dupRange || bridged

	fail := func(oracle, format string, a ...any) core.Result {
		res.Violation = &core.Violation{Oracle: oracle, Msg: fmt.Sprintf(format, a...) + fmt.Sprintf(" | plan=%s err=%v reach=%v", fmtPlan(plan), err, keys(reach))}
		return res
	}

	gapBeyond := func(cur int) bool {
		for _, f := range c.Files {
			if f.Level != 9 && f.Min > cur+1 {
				return true
			}
		}
		return false
	}

	if err == nil {
		if len(plan) == 0 {
			return fail("plan-empty", "nil error with empty plan")
		}
		// validity
		if plan[0].MinTXID != 1 {
			return fail("plan-start", "plan starts at TXID %d, not 1", plan[0].MinTXID)
		}
		cur := int(plan[0].MaxTXID)
		for i := 1; i < len(plan); i++ {
			f := plan[i]
			if !(int(f.MinTXID) <= cur+1 && int(f.MaxTXID) > cur) {
				return fail("plan-contiguity", "file %d (%d-%d) does not extend/continue prev max %d", i, f.MinTXID, f.MaxTXID, cur)
			}
			cur = int(f.MaxTXID)
		}
		// every plan file must be a file of the set
		for _, f := range plan {
			found := false
			for _, g := range c.Files {
				if g.Level == f.Level && g.Min == int(f.MinTXID) && g.Max == int(f.MaxTXID) {
					found = true
				}
			}
			if !found {
				return fail("plan-invented", "plan uses a file that is not in the set: L%d %d-%d", f.Level, f.MinTXID, f.MaxTXID)
			}
		}
		switch c.Target {
		case "txid":
			if cur != c.TXID {
				return fail("plan-end", "plan ends at %d, requested %d", cur, c.TXID)
			}
		case "time":
			for _, f := range plan {
				if !f.CreatedAt.Before(ts) {
					return fail("plan-time", "plan uses file created at %s, not before %s", f.CreatedAt, ts)
				}
			}
			// completeness in the sense "a later T never yields less" is C15's; here: a plan must
			// reach the furthest reachable TXID only when asked for latest.
		case "latest":
			if cur != maxReach {
				return fail("plan-latest-short", "plan ends at %d but %d is reachable", cur, maxReach)
			}
			if gapBeyond(cur) {
				return fail("plan-latest-gap", "plan ends at %d although a file lies beyond a gap; an error is required", cur)
			}
		}
		return res
	}

	// error returned: must be justified
	switch c.Target {
	case "txid":
		if reach[c.TXID] {
			return fail("missed-chain", "error although a valid chain to TXID %d exists", c.TXID)
		}
	case "time":
		if len(reach) > 0 {
			return fail("missed-chain", "error although a valid chain of files before T exists")
		}
	case "latest":
		if len(reach) > 0 && !gapBeyond(maxReach) {
			return fail("missed-chain", "error although a valid chain to %d exists and nothing lies beyond a gap", maxReach)
		}
	}
	return res
}

func fmtPlan(p []*ltx.FileInfo) string {
	s := "["
	for i, f := range p {
		if i > 0 {
			s += " "
		}
		s += fmt.Sprintf("L%d:%d-%d", f.Level, f.MinTXID, f.MaxTXID)
	}
	return s + "]"
}

func keys(m map[int]bool) []int {
	var a []int
	for k := range m {
		a = append(a, k)
	}
	sort.Ints(a)
	return a
}

func genC08(t *rapid.T) c08Case {
	n := rapid.IntRange(1, 10).Draw(t, "N")
	levels := []int{0, 0, 0, 1, 1, 2, 9, 9}
	if rapid.IntRange(0, 9).Draw(t, "rareLevels") == 0 {
		levels = append(levels, 3, 8)
	}
	nf := rapid.IntRange(0, 14).Draw(t, "nfiles")
	seen := map[[3]int]bool{}
	var files []c08File
	for i := 0; i < nf; i++ {
		lvl := rapid.SampledFrom(levels).Draw(t, "level")
		var a, b int
		if lvl == 9 {
			a = 1
			b = rapid.IntRange(1, n).Draw(t, "max")
		} else if lvl == 0 && rapid.IntRange(0, 3).Draw(t, "l0single") > 0 {
			a = rapid.IntRange(1, n).Draw(t, "min")
			b = a
		} else {
			a = rapid.IntRange(1, n).Draw(t, "min")
			b = rapid.IntRange(a, n).Draw(t, "max")
		}
		k := [3]int{lvl, a, b}
		if seen[k] {
			continue // the file client cannot hold two files with one name
		}
		seen[k] = true
		files = append(files, c08File{Level: lvl, Min: a, Max: b, TS: rapid.IntRange(0, 5).Draw(t, "ts")})
	}
	c := c08Case{Files: files}
	switch rapid.IntRange(0, 2).Draw(t, "targetKind") {
	case 0:
		c.Target = "latest"
	case 1:
		c.Target = "txid"
		c.TXID = rapid.IntRange(1, n+1).Draw(t, "txid")
	case 2:
		c.Target = "time"
		c.TimeHS = rapid.IntRange(0, 12).Draw(t, "timeHS")
		if c.TimeHS == 0 && len(files) > 0 {
			// zero offset is still a non-zero time.Time (base is 2024-01-01)
		}
	}
	return c
}

func TestProp_C08(t *testing.T) {
	core.Check(t, "C08", genC08, execC08)
}

// TestEnum_C08 enumerates the whole space for N=3 without timestamps: all
// subsets of the 21 possible files (6 ranges x levels 0,1,2 + 3 snapshots) x
// targets {latest, 1, 2, 3, 4}. Sharded by VERIF_SHARD / VERIF_SHARDS.
func TestEnum_C08(t *testing.T) {
	if os.Getenv("VERIF_ENUM") == "" {
		t.Skip("enumeration runs only when VERIF_ENUM is set")
	}
	core.Register("C08", execC08)
	defer core.FlushStats()
	n := core.EnvInt("VERIF_ENUM_N", 3)
	var all []c08File
	for _, lvl := range []int{0, 1, 2} {
		for a := 1; a <= n; a++ {
			for b := a; b <= n; b++ {
				all = append(all, c08File{Level: lvl, Min: a, Max: b})
			}
		}
	}
	for b := 1; b <= n; b++ {
		all = append(all, c08File{Level: 9, Min: 1, Max: b})
	}
	shard, shards := core.EnvInt("VERIF_SHARD", 0), core.EnvInt("VERIF_SHARDS", 1)
	total := uint64(1) << uint(len(all))
	var evals, nontrivial int
	labels := map[string]int{}
	var sample any
	for mask := uint64(shard); mask < total; mask += uint64(shards) {
		var files []c08File
		for i, f := range all {
			if mask&(1<<uint(i)) != 0 {
				files = append(files, f)
			}
		}
		for tgt := 0; tgt <= n+1; tgt++ {
			c := c08Case{Files: files, Target: "txid", TXID: tgt}
			if tgt == 0 {
				c.Target = "latest"
			}
			res := core.SafeExec(execC08, c)
			evals++
			if res.NonTrivial {
				nontrivial++
			}
			for _, l := range res.Labels {
				labels[l]++
			}
			if evals%200000 == 1 {
				sample = c
			}
			if res.Violation != nil {
				core.RunOne(t, "C08", c, execC08) // records + saves replay + fails
				return
			}
		}
	}
	// one aggregated statistics line (the enumeration visits each case once: distinct by construction)
	core.Record("C08", sample, core.Result{Key: fmt.Sprintf("enum-shard-%d", shard), NonTrivial: true, Evals: evals,
		Notes: mergeNotes(labels, map[string]int{"enum_evals": evals, "enum_nontrivial_distinct": nontrivial, "enum_files": len(all)}),
		Sample: map[string]any{"enumeration": fmt.Sprintf("N=%d all subsets of %d files x %d targets, shard %d/%d", n, len(all), n+2, shard, shards), "example": sample}})
}

func mergeNotes(a, b map[string]int) map[string]int {
	m := map[string]int{}
	for k, v := range a {
		m["label:"+k] = v
	}
	for k, v := range b {
		m[k] = v
	}
	return m
}
