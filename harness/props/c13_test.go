package props

// C13 — checkpoint policy keeps the WAL bounded and an idle database silent.

import (
	"fmt"
	"testing"

	"pgregory.net/rapid"

	"verifharness/core"
	"verifharness/lsw"
	"verifharness/refwal"
)

type c13Case struct {
	Cfg  lsw.Config `json:"cfg"`
	Ops  []lsw.Op   `json:"ops"`
	Idle int        `json:"idle"`
}

func genC13(t *rapid.T) c13Case {
	cfg := lsw.GenConfig(t, core.Thorough())
	cfg.AppAutoCkpt = rapid.SampledFrom([]int{0, 0, 1000}).Draw(t, "aac")
	m := lsw.NewGenModel(cfg)
	n := rapid.IntRange(6, 30).Draw(t, "steps")
	var ops []lsw.Op
	ops = append(ops, lsw.Op{K: "sync"})
	for i := 0; i < n; i++ {
		if rapid.IntRange(0, 9).Draw(t, "which") < 6 {
			o := m.AppOp(t)
			if o.K == "appckpt" { // application checkpoints are C01's; here the WAL is managed by litestream's policy alone
				o = lsw.Op{K: "insert", C: 0, T: 0, N: rapid.SampledFrom([]int{1, 5, 12, 30}).Draw(t, "n"), S: rapid.IntRange(0, 3).Draw(t, "size")}
				if m.Writer != -1 && m.Writer != 0 || m.Tx[0] == 1 || !m.Table[0] {
					continue
				}
			}
			ops = append(ops, o)
		} else {
			// the property's premise: no application transaction pinned open at sync time
			ops = append(ops, m.CloseOutTx()...)
			ops = append(ops, lsw.Op{K: rapid.SampledFrom([]string{"sync", "sync", "sync", "syncwait"}).Draw(t, "lsop")})
		}
	}
	ops = append(ops, m.CloseOutTx()...)
	return c13Case{Cfg: cfg, Ops: ops, Idle: rapid.IntRange(5, 15).Draw(t, "idle")}
}

func c13LowestThreshold(cfg lsw.Config) int {
	lo := cfg.MinCkpt
	tr := cfg.TruncN
	if tr == 0 {
		tr = 121359
	}
	if tr < lo {
		lo = tr
	}
	return lo
}

func execC13(c c13Case) (res core.Result) {
	w, err := lsw.NewWorld(c.Cfg, core.WorkDir("c13"))
	if err != nil {
		panic(fmt.Sprintf("harness: new world: %v", err))
	}
	defer w.Cleanup()
	if err := w.Attach(); err != nil {
		panic(fmt.Sprintf("harness: attach: %v", err))
	}
	res.Key = core.HashStrings(lsw.Case{Cfg: c.Cfg, Ops: c.Ops}.Abstract(), fmt.Sprint(c.Idle))
	lowest := c13LowestThreshold(c.Cfg)
	crossed := false
	defer func() {
		c01Labels(w, &res)
		if crossed {
			res.Labels = append(res.Labels, "threshold-crossed")
		}
	}()
	frames := func() int {
		d := refwal.Decode(w.ReadWAL())
		if !d.HeaderOK {
			return 0
		}
		return len(d.Valid)
	}
	for i, o := range c.Ops {
		if !lsw.IsLSOp(o.K) {
			w.AppStep(o)
			continue
		}
		before := frames()
		sr := w.LSStep(o)
		if sr.Err != nil {
			continue
		}
		if w.AnyTx() {
			continue // premise not met (a skipped commit left a transaction open)
		}
		res.Evals++
		after := frames()
		if before >= lowest {
			crossed = true
		}
		// fewer frames than the lowest threshold, plus litestream's own bookkeeping frame
		if after > lowest {
			res.Violation = &core.Violation{Oracle: "wal-bound", Msg: fmt.Sprintf("after step %d (%s): live WAL generation holds %d frames (was %d before the sync), lowest checkpoint threshold is %d pages (MinCheckpointPageN=%d TruncatePageN=%d)", i, o, after, before, lowest, c.Cfg.MinCkpt, c.Cfg.TruncN)}
			if c.Cfg.TruncN != 0 && c.Cfg.TruncN < c.Cfg.MinCkpt {
				// shape: TruncatePageN is the lowest threshold (below MinCheckpointPageN) AND one further sync with no
				// write in between brings the WAL back under the bound (the truncate tier looks at the pre-sync size)
				if sr2 := w.LSStep(lsw.Op{K: "sync"}); sr2.Err == nil && frames() <= lowest {
					res.Violation.Shapes = append(res.Violation.Shapes, "truncate-below-min-lags-one-sync")
				}
			}
			return res
		}
	}
	idleStartFrames := frames()
	count := func() int {
		n := 0
		for _, f := range lsw.ListLTX(w.DB.MetaPath()) {
			if f.Level == 0 {
				n++
			}
		}
		return n
	}
	// the application has stopped writing; one catch-up sync replicates whatever is still pending (that is data,
	// not idle noise), then the idle rounds are measured
	if sr := w.LSStep(lsw.Op{K: "sync"}); sr.Err != nil {
		res.Violation = &core.Violation{Oracle: "idle-sync-error", Msg: fmt.Sprintf("catch-up Sync failed on an idle database: %v", sr.Err)}
		return res
	}
	// idle phase
	var counts []int
	counts = append(counts, count())
	for r := 1; r <= c.Idle; r++ {
		if sr := w.LSStep(lsw.Op{K: "sync"}); sr.Err != nil {
			res.Violation = &core.Violation{Oracle: "idle-sync-error", Msg: fmt.Sprintf("idle round %d: Sync failed on an idle database: %v", r, sr.Err)}
			return res
		}
		w.LSStep(lsw.Op{K: "rsync"})
		counts = append(counts, count())
		res.Evals++
	}
	res.NonTrivial = crossed && idleStartFrames > 0
	for r := 1; r < len(counts); r++ {
		var v *core.Violation
		if counts[r]-counts[0] > 3 {
			v = &core.Violation{Oracle: "idle-files", Msg: fmt.Sprintf("idle syncs created %d new level-0 files by round %d (counts %v)", counts[r]-counts[0], r, counts)}
		} else if r >= 4 && counts[r] != counts[r-1] {
			v = &core.Violation{Oracle: "idle-not-silent", Msg: fmt.Sprintf("idle round %d still created a level-0 file (counts %v): an idle database keeps producing LTX files", r, counts)}
		}
		if v != nil {
			if lowest == 1 {
				// shape: the lowest checkpoint threshold is one page, which litestream's own bookkeeping frame always reaches
				v.Shapes = append(v.Shapes, "threshold-one-page-idle-loop")
			}
			res.Violation = v
			return res
		}
	}
	return res
}

func TestProp_C13(t *testing.T) {
	core.Check(t, "C13", genC13, execC13)
}
