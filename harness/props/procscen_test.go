package props

// Shared machinery for the process-level properties C03 (kill), C11 (syscall
// ordering) and C16 (follow mode): scenarios executed by the lsdriver child
// under the ptrace supervisor while the application lives in this process.

import (
	"fmt"
	"os"
	"path/filepath"
	"strings"

	"pgregory.net/rapid"

	"verifharness/drv"
	"verifharness/lsw"
	"verifharness/ptracesup"
)

// pCmd is one step of a process-level scenario: either an application op
// (executed in the parent) or a litestream command (executed by the child).
type pCmd struct {
	App *lsw.Op        `json:"app,omitempty"`
	LS  map[string]any `json:"ls,omitempty"`
}

func lsCmd(op string, kv ...any) pCmd {
	m := map[string]any{"op": op}
	for i := 0; i+1 < len(kv); i += 2 {
		m[kv[i].(string)] = kv[i+1]
	}
	return pCmd{LS: m}
}

func appCmd(o lsw.Op) pCmd { return pCmd{App: &o} }

func (c pCmd) String() string {
	if c.App != nil {
		return "app:" + c.App.String()
	}
	s := fmt.Sprint(c.LS["op"])
	for _, k := range []string{"mode", "level", "retention", "txid"} {
		if v, ok := c.LS[k]; ok {
			s += fmt.Sprintf(" %s=%v", k, v)
		}
	}
	return s
}

func (c pCmd) class() string {
	if c.App != nil {
		return "app"
	}
	switch c.LS["op"] {
	case "sync":
		return "wal-copy"
	case "rsync", "syncwait":
		return "upload"
	case "checkpoint":
		return "checkpoint"
	case "compact", "compactdb":
		return "compaction"
	case "snapshot":
		return "snapshot"
	case "retain":
		return "retention"
	case "restore":
		return "restore"
	case "open":
		return "open"
	case "close":
		return "close"
	}
	return fmt.Sprint(c.LS["op"])
}

// genProcScenario draws a short C01-style scenario of litestream commands with application writes in between.
func genProcScenario(t *rapid.T, cfg lsw.Config, n int, withRestore bool) []pCmd {
	m := lsw.NewGenModel(cfg)
	var cmds []pCmd
	cmds = append(cmds, appCmd(lsw.Op{K: "insert", T: 0, N: 3, S: 1}), lsCmd("syncwait"))
	for i := 0; i < n; i++ {
		// 1-2 application ops between commands (autocommit only: no transaction may span a child command)
		for k := rapid.IntRange(1, 2).Draw(t, "napp"); k > 0; k-- {
			o := m.AppOp(t)
			switch o.K {
			case "begin", "beginread", "openconn", "closeconn", "commit", "rollback", "endread":
				o = lsw.Op{K: "update", T: 0, A: 0, B: rapid.IntRange(10, 100).Draw(t, "b")}
			}
			if o.C != 0 {
				o.C = 0
			}
			cmds = append(cmds, appCmd(o))
		}
		r := rapid.IntRange(0, 99).Draw(t, "lscmd")
		switch {
		case r < 20:
			cmds = append(cmds, lsCmd("sync"))
		case r < 45:
			cmds = append(cmds, lsCmd("syncwait"))
		case r < 55:
			cmds = append(cmds, lsCmd("rsync"))
		case r < 67:
			cmds = append(cmds, lsCmd("checkpoint", "mode", rapid.SampledFrom([]string{"PASSIVE", "FULL", "RESTART", "TRUNCATE"}).Draw(t, "mode")))
		case r < 79:
			cmds = append(cmds, lsCmd("compact", "level", rapid.IntRange(1, cfg.Levels).Draw(t, "level")))
		case r < 86:
			cmds = append(cmds, lsCmd("snapshot"))
		case r < 93:
			cmds = append(cmds, lsCmd("retain", "retention", rapid.SampledFrom([]string{"l0", "snapshot", "store"}).Draw(t, "ret"), "ts", 4102444800000)) // year 2100: everything is "old"
		default:
			if withRestore {
				cmds = append(cmds, lsCmd("restore", "out", "RESTORE_OUT"))
			} else {
				cmds = append(cmds, lsCmd("syncwait"))
			}
		}
	}
	cmds = append(cmds, lsCmd("syncwait"))
	return cmds
}

// procSession is one running (possibly traced) lsdriver child bound to a world.
type procSession struct {
	w    *lsw.World
	sup  *ptracesup.Sup
	proc *drv.Proc
	outN int
}

func startSession(w *lsw.World, traced bool, killAt int, record bool) (*procSession, error) {
	s := &procSession{w: w}
	if traced {
		sup, err := ptracesup.Start([]string{drv.Bin()}, os.Environ(), ptracesup.Options{ScopeDir: w.Dir, KillAt: killAt, Record: record})
		if err != nil {
			return nil, err
		}
		s.sup = sup
		s.proc = drv.Attach(sup.Cmd, sup.Stdin, sup.Stdout, sup.Stderr)
	} else {
		p, err := drv.Start()
		if err != nil {
			return nil, err
		}
		s.proc = p
	}
	return s, nil
}

// open sends the "open" command for the world's database.
func (s *procSession) open() drv.Reply {
	return s.proc.Do(map[string]any{"op": "open", "db": s.w.DBPath, "replica": s.w.ReplicaDir, "cfg": s.w.Cfg})
}

// restoreOut returns a fresh output path for a restore command.
func (s *procSession) restoreOut() string {
	s.outN++
	d := filepath.Join(s.w.Dir, "restoreout")
	_ = os.MkdirAll(d, 0o755)
	return filepath.Join(d, fmt.Sprintf("r%d.db", s.outN))
}

// do runs one litestream command in the child (filling in paths).
func (s *procSession) do(c pCmd) (drv.Reply, string) {
	m := map[string]any{}
	for k, v := range c.LS {
		m[k] = v
	}
	out := ""
	if m["op"] == "restore" {
		out = s.restoreOut()
		m["out"] = out
		m["replica"] = s.w.ReplicaDir
	}
	return s.proc.Do(m), out
}

func (s *procSession) stop() {
	if s.proc != nil && !s.proc.Dead() {
		s.proc.Close()
	}
	if s.sup != nil {
		if !s.sup.Done() {
			s.sup.KillNow()
		}
		s.sup.Wait()
	}
}

func isFinalLTX(p string) bool {
	return strings.HasSuffix(p, ".ltx") && strings.Contains(p, "/ltx/")
}
