package props

// C11 — files are flushed before they are published, and published before acknowledged.
//
// Scenarios are executed by the lsdriver child under the ptrace supervisor in
// trace mode; the ordering rules are evaluated over the recorded system calls.

import (
	"fmt"
	"os"
	"path/filepath"
	"strconv"
	"strings"
	"testing"
	"time"
	"verifharness/drv"

	"github.com/benbjohnson/litestream"
	"github.com/superfly/ltx"
	"pgregory.net/rapid"

	"verifharness/core"
	"verifharness/lsw"
	"verifharness/ptracesup"
)

type c11Case struct {
	Cfg    lsw.Config `json:"cfg"`
	Cmds   []pCmd     `json:"cmds"`
	Behind bool       `json:"behind,omitempty"` // restart with the meta directory removed so the baseline file is fetched from the replica
	Follow int        `json:"follow,omitempty"` // >0: afterwards a traced follow-mode restore runs while the primary replicates this many more transactions
	// Legacy >0: a traced restore from a 0.3.x layout built from the application's database: 1 = a snapshot and no WAL
	// segment after it, 2 = a snapshot and one WAL segment, 3 = a snapshot and a WAL cut into two segments
	Legacy int `json:"legacy,omitempty"`
}

func genC11(t *rapid.T) c11Case {
	cfg := lsw.GenConfig(t, false)
	cfg.PageSize = rapid.SampledFrom([]int{512, 1024, 4096}).Draw(t, "ps")
	cfg.Levels = rapid.IntRange(1, 2).Draw(t, "levels")
	cfg.L0RetNS = 1
	cfg.SmallCache = false
	cfg.AppAutoCkpt = 0
	c := c11Case{Cfg: cfg}
	c.Cmds = genProcScenario(t, cfg, rapid.IntRange(4, 10).Draw(t, "n"), true)
	c.Behind = rapid.IntRange(0, 3).Draw(t, "behind") == 0
	if rapid.IntRange(0, 9).Draw(t, "follow") < 4 {
		c.Follow = rapid.IntRange(1, 3).Draw(t, "followTx")
	}
	if rapid.IntRange(0, 9).Draw(t, "legacy") < 3 {
		c.Legacy = rapid.IntRange(1, 3).Draw(t, "legacyKind")
	}
	return c
}

type ltxName struct {
	tree  string // directory above "ltx/"
	level int
	min   ltx.TXID
	max   ltx.TXID
}

func parseLTXPath(p string) (ltxName, bool) {
	i := strings.LastIndex(p, "/ltx/")
	if i < 0 || !strings.HasSuffix(p, ".ltx") {
		return ltxName{}, false
	}
	rest := strings.Split(p[i+5:], "/")
	if len(rest) != 2 {
		return ltxName{}, false
	}
	lvl, err := strconv.Atoi(rest[0])
	if err != nil {
		return ltxName{}, false
	}
	mn, mx, err := ltx.ParseFilename(rest[1])
	if err != nil {
		return ltxName{}, false
	}
	return ltxName{tree: p[:i], level: lvl, min: mn, max: mx}, true
}

type traceViolation struct {
	Rule string
	Msg  string
}

// checkTrace evaluates P1-P3 over a trace. initialDurable lists LTX files that
// existed (and are assumed durable) before the trace began; replicaTree is the
// replica directory; finalExtra reports additional final names (restore output, sidecar).
func checkTrace(events []ptracesup.Event, initialDurable []string, replicaTree string, finalExtra func(string) bool) (viol *traceViolation, checkedRenames, checkedUnlinks, acks int, classes map[string]int) {
	classes = map[string]int{}
	dirty := map[string]bool{}
	durable := map[string]bool{}
	for _, p := range initialDurable {
		durable[p] = true
	}
	pendingDir := map[string][]string{} // dir -> final names renamed into it (or unlinked) and not yet followed by a directory fsync
	isFinal := func(p string) bool {
		if strings.HasSuffix(p, ".tmp") {
			return false
		}
		if _, ok := parseLTXPath(p); ok {
			return true
		}
		return finalExtra != nil && finalExtra(p)
	}
	class := func(p string) string {
		if n, ok := parseLTXPath(p); ok {
			if n.tree == replicaTree {
				return "replica-ltx"
			}
			return "local-ltx"
		}
		if strings.HasSuffix(p, "-txid") {
			return "sidecar"
		}
		return "restore-output"
	}
	for _, e := range events {
		switch e.Name {
		case "write", "pwrite", "writev", "pwritev", "ftruncate", "fallocate", "truncate":
			if e.Path == "<stdout>" {
				if strings.Contains(e.Data, "ACK ") {
					ok := strings.Contains(e.Data, " ok")
					if ok {
						acks++
						for d, names := range pendingDir {
							if len(names) > 0 {
								return &traceViolation{"P2-dir-not-flushed-before-ack", fmt.Sprintf("success reported (%q, event #%d) although directory %s was not fsynced after %v became visible", strings.TrimSpace(e.Data), e.Seq, d, names)}, checkedRenames, checkedUnlinks, acks, classes
							}
						}
					} else {
						pendingDir = map[string][]string{}
					}
				}
				continue
			}
			if e.Ret >= 0 {
				dirty[e.Path] = true
			}
		case "open", "creat":
			if e.Ret >= 0 && e.Flags&os.O_TRUNC != 0 {
				dirty[e.Path] = true
			}
		case "fsync", "fdatasync":
			if e.Ret != 0 {
				continue
			}
			delete(dirty, e.Path)
			if names, ok := pendingDir[e.Path]; ok {
				for _, n := range names {
					durable[n] = true
				}
				delete(pendingDir, e.Path)
			}
		case "rename":
			if e.Ret != 0 {
				continue
			}
			if isFinal(e.Path2) {
				checkedRenames++
				classes[class(e.Path2)]++
				if dirty[e.Path] {
					return &traceViolation{"P1-published-before-flushed", fmt.Sprintf("event #%d: %s renamed to its final name %s although it was written after its last fsync", e.Seq, e.Path, e.Path2)}, checkedRenames, checkedUnlinks, acks, classes
				}
				d := filepath.Dir(e.Path2)
				pendingDir[d] = append(pendingDir[d], e.Path2)
			}
			if dirty[e.Path] {
				dirty[e.Path2] = true
			} else {
				delete(dirty, e.Path2)
			}
			delete(dirty, e.Path)
			delete(durable, e.Path)
		case "unlink":
			if e.Ret != 0 {
				continue
			}
			n, ok := parseLTXPath(e.Path)
			if !ok || strings.HasSuffix(e.Path, ".tmp") {
				continue
			}
			checkedUnlinks++
			classes["unlink"]++
			superseded := false
			for p := range durable {
				g, ok := parseLTXPath(p)
				if !ok || p == e.Path || g.tree != replicaTree {
					continue
				}
				switch {
				case n.level == 9:
					if g.level == 9 && g.max > n.max {
						superseded = true
					}
				case g.level == 9:
					if g.max >= n.max {
						superseded = true
					}
				case g.level > n.level || (g.level == n.level && n.tree != replicaTree):
					if g.min <= n.min && g.max >= n.max {
						superseded = true
					}
				}
			}
			if !superseded {
				return &traceViolation{"P3-deleted-before-superseded", fmt.Sprintf("event #%d: %s deleted although no file that supersedes it had been made durable on the replica (renamed in after its last fsync and followed by a directory fsync)", e.Seq, e.Path)}, checkedRenames, checkedUnlinks, acks, classes
			}
			delete(durable, e.Path)
			delete(dirty, e.Path)
		}
	}
	return nil, checkedRenames, checkedUnlinks, acks, classes
}

func listLTXPaths(dirs ...string) []string {
	var out []string
	for _, d := range dirs {
		for _, f := range lsw.ListLTX(d) {
			out = append(out, f.Path)
		}
	}
	return out
}

func execC11(c c11Case) (res core.Result) {
	w, err := lsw.NewWorld(c.Cfg, core.WorkDir("c11"))
	if err != nil {
		panic(fmt.Sprintf("harness: new world: %v", err))
	}
	defer w.Cleanup()
	res.Key = core.HashJSON(c)
	totalRen, totalUnl, totalAcks := 0, 0, 0
	classes := map[string]int{}
	defer func() {
		for k := range classes {
			res.Labels = append(res.Labels, "checked:"+k)
		}
		res.Notes = map[string]int{"checked_renames": totalRen, "checked_unlinks": totalUnl, "acks": totalAcks}
		res.NonTrivial = totalRen > 0 && totalAcks > 0
	}()
	runSession := func(cmds []pCmd, label string) *core.Violation {
		initial := listLTXPaths(w.ReplicaDir, w.MetaDir())
		s, err := startSession(w, true, 0, true)
		if err != nil {
			panic(fmt.Sprintf("harness: start traced child: %v", err))
		}
		var outs []string
		r := s.open()
		if r.Crashed {
			s.stop()
			return &core.Violation{Oracle: "child-crashed", Msg: label + ": open: " + r.Stderr}
		}
		for _, cmd := range cmds {
			if cmd.App != nil {
				w.AppStep(*cmd.App)
				continue
			}
			r, out := s.do(cmd)
			if out != "" {
				outs = append(outs, out)
			}
			if r.Crashed {
				s.stop()
				return &core.Violation{Oracle: "child-crashed", Msg: fmt.Sprintf("%s: %s: %s", label, cmd, r.Stderr)}
			}
		}
		s.proc.Do(map[string]any{"op": "close"})
		s.stop()
		tr := s.sup.Trace()
		isOut := func(p string) bool {
			for _, o := range outs {
				if p == o || p == o+"-txid" {
					return true
				}
			}
			return false
		}
		v, nr, nu, na, cl := checkTrace(tr, initial, w.ReplicaDir, isOut)
		totalRen += nr
		totalUnl += nu
		totalAcks += na
		res.Evals += nr + nu
		for k, n := range cl {
			classes[k] += n
		}
		if v != nil {
			return &core.Violation{Oracle: v.Rule, Msg: label + ": " + v.Msg}
		}
		return nil
	}
	if v := runSession(c.Cmds, "session 1"); v != nil {
		res.Violation = v
		return res
	}
	if c.Behind {
		// lose the local state while litestream is down: on restart the latest level-0 file is fetched from the replica as baseline
		_ = os.RemoveAll(w.MetaDir())
		w.AppStep(lsw.Op{K: "update", T: 0, A: 0, B: 100})
		res.Labels = append(res.Labels, "restart-behind-replica")
		if v := runSession([]pCmd{lsCmd("syncwait"), appCmd(lsw.Op{K: "insert", T: 0, N: 2, S: 1}), lsCmd("syncwait")}, "session 2 (meta directory lost)"); v != nil {
			res.Violation = v
			return res
		}
	}
	if c.Legacy > 0 {
		if v := c11LegacySession(w, c.Legacy, &res, &totalRen, &totalAcks, classes); v != nil {
			res.Violation = v
			return res
		}
	}
	if c.Follow > 0 {
		if v := c11FollowSession(w, c.Follow, &res, &totalRen, &totalAcks, classes); v != nil {
			res.Violation = v
			return res
		}
	}
	return res
}

// c11LegacySession traces a restore from a 0.3.x backup (generations/<id>/snapshots, .../wal) synthesised from the
// application's database while no litestream process is attached: the database file right after a TRUNCATE checkpoint is
// the snapshot of index 0, the WAL written afterwards is index 0's WAL, cut at a commit boundary for kind 3.
func c11LegacySession(w *lsw.World, kind int, res *core.Result, totalRen, totalAcks *int, classes map[string]int) *core.Violation {
	root := filepath.Join(w.Dir, "legacy")
	gid := "000000000000a001"
	walPath := w.DBPath + "-wal"
	w.AppStep(lsw.Op{K: "appckpt", M: "TRUNCATE"})
	if fi, err := os.Stat(walPath); err == nil && fi.Size() != 0 {
		res.Labels = append(res.Labels, "legacy-skipped-wal-not-truncated")
		return nil
	}
	img, err := w.ReadDB()
	if err != nil || len(img) == 0 {
		res.Labels = append(res.Labels, "legacy-skipped-no-image")
		return nil
	}
	mt := time.Now().Add(-time.Hour)
	writeLZ4(filepath.Join(root, "generations", gid, "snapshots", litestream.FormatSnapshotFilenameV3(0)), img, mt)
	if kind >= 2 {
		w.AppStep(lsw.Op{K: "insert", T: 0, N: 3, S: 1})
		var cut int64
		if fi, err := os.Stat(walPath); err == nil {
			cut = fi.Size()
		}
		w.AppStep(lsw.Op{K: "update", T: 0, A: 0, B: 100})
		wal, _ := os.ReadFile(walPath)
		if len(wal) == 0 {
			res.Labels = append(res.Labels, "legacy-skipped-empty-wal")
			return nil
		}
		if kind == 3 && cut > 0 && cut < int64(len(wal)) {
			writeLZ4(filepath.Join(root, "generations", gid, "wal", litestream.FormatWALSegmentFilenameV3(0, 0)), wal[:cut], mt.Add(10*time.Second))
			writeLZ4(filepath.Join(root, "generations", gid, "wal", litestream.FormatWALSegmentFilenameV3(0, cut)), wal[cut:], mt.Add(20*time.Second))
		} else {
			writeLZ4(filepath.Join(root, "generations", gid, "wal", litestream.FormatWALSegmentFilenameV3(0, 0)), wal, mt.Add(10*time.Second))
		}
	}
	s, err := startSession(w, true, 0, true)
	if err != nil {
		panic(fmt.Sprintf("harness: start traced child: %v", err))
	}
	_ = os.MkdirAll(filepath.Join(w.Dir, "legacyout"), 0o755)
	out := filepath.Join(w.Dir, "legacyout", "l.db")
	r := s.proc.Do(map[string]any{"op": "restore", "replica": root, "out": out})
	if r.Crashed {
		s.stop()
		return &core.Violation{Oracle: "child-crashed", Msg: "legacy restore: " + r.Stderr}
	}
	s.stop()
	res.Labels = append(res.Labels, fmt.Sprintf("legacy-restore-kind-%d", kind))
	if !r.OK {
		// whether a legacy layout restores at all is C19's subject
		msg := r.Err
		if len(msg) > 70 {
			msg = msg[:70]
		}
		res.Labels = append(res.Labels, "legacy-restore-error", fmt.Sprintf("legacy-restore-error-kind-%d: %s", kind, msg))
		return nil
	}
	if _, err := os.Stat(out); err != nil {
		return &core.Violation{Oracle: "legacy-restore-no-output", Msg: "legacy restore acknowledged but the output file does not exist"}
	}
	v, nr, _, na, cl := checkTrace(s.sup.Trace(), nil, root, func(p string) bool { return p == out || p == out+"-txid" })
	*totalRen += nr
	*totalAcks += na
	res.Evals += nr
	for k, n := range cl {
		classes["legacy-"+k] += n
	}
	if v != nil {
		return &core.Violation{Oracle: v.Rule, Msg: fmt.Sprintf("legacy restore (kind %d): %s", kind, v.Msg)}
	}
	return nil
}

// c11FollowSession traces a follow-mode restore (initial restore, then incremental application with its TXID sidecar
// republished after every applied batch) while an untraced litestream child replicates n more transactions.
func c11FollowSession(w *lsw.World, n int, res *core.Result, totalRen, totalAcks *int, classes map[string]int) *core.Violation {
	if lsw.MaxL0(w.ReplicaDir) == 0 {
		return nil
	}
	outDir := filepath.Join(w.Dir, "followout")
	_ = os.MkdirAll(outDir, 0o755)
	out := filepath.Join(outDir, "f.db")
	initial := listLTXPaths(w.ReplicaDir, w.MetaDir())
	sup, err := ptracesup.Start([]string{drv.Bin()}, os.Environ(), ptracesup.Options{ScopeDir: w.Dir, Record: true})
	if err != nil {
		panic(fmt.Sprintf("harness: start traced follower: %v", err))
	}
	proc := drv.Attach(sup.Cmd, sup.Stdin, sup.Stdout, sup.Stderr)
	if err := proc.Send(map[string]any{"op": "restore", "replica": w.ReplicaDir, "out": out, "follow": true, "follow_ms": 2}); err != nil {
		panic(fmt.Sprintf("harness: send follow: %v", err))
	}
	proc.WaitBegin()
	reply := make(chan drv.Reply, 1)
	go func() { reply <- proc.Wait() }()
	ended := false
	var got drv.Reply
	waitSidecar := func(target ltx.TXID) {
		for poll := 0; poll < 3000 && !ended; poll++ {
			if b, err := os.ReadFile(out + "-txid"); err == nil {
				if id, err := ltx.ParseTXID(strings.TrimSpace(string(b))); err == nil && id >= target {
					return
				}
			}
			select {
			case got = <-reply:
				ended = true
			default:
				time.Sleep(2 * time.Millisecond)
			}
		}
	}
	waitSidecar(lsw.MaxL0(w.ReplicaDir))
	// the primary moves on
	s2, err := startSession(w, false, 0, false)
	if err != nil {
		panic(fmt.Sprintf("harness: start primary child: %v", err))
	}
	if r := s2.open(); r.OK {
		for k := 0; k < n && !ended; k++ {
			w.AppStep(lsw.Op{K: "insert", T: 0, N: 2, S: 1})
			s2.do(lsCmd("syncwait"))
			waitSidecar(lsw.MaxL0(w.ReplicaDir))
		}
		s2.proc.Do(map[string]any{"op": "close"})
	}
	s2.stop()
	if !ended {
		proc.Term()
		got = <-reply
	}
	if !got.Crashed {
		proc.Close()
	}
	if !sup.Done() {
		sup.KillNow()
	}
	sup.Wait()
	res.Labels = append(res.Labels, "follow-session")
	isOut := func(p string) bool { return p == out || p == out+"-txid" }
	v, nr, _, na, cl := checkTrace(sup.Trace(), initial, w.ReplicaDir, isOut)
	*totalRen += nr
	*totalAcks += na
	res.Evals += nr
	for k, c := range cl {
		classes[k] += c
	}
	if v != nil {
		return &core.Violation{Oracle: v.Rule, Msg: "follow session: " + v.Msg}
	}
	return nil
}

func TestProp_C11(t *testing.T) {
	core.Check(t, "C11", genC11, execC11)
}
