package props

// C15 — timestamp restore never returns data from after the requested time.

import (
	"context"
	"fmt"
	"os"
	"path/filepath"
	"sort"
	"testing"
	"time"

	"github.com/benbjohnson/litestream"
	"github.com/benbjohnson/litestream/file"
	"github.com/superfly/ltx"
	"pgregory.net/rapid"

	"verifharness/core"
	"verifharness/lsw"
)

type c15Case struct {
	lsw.Case
	Pick []int `json:"pick"` // selects which targets are evaluated
	CLI  bool  `json:"cli"`  // go through CalcRestoreTarget first, as cmd/litestream/restore.go does
	Lag  bool  `json:"lag,omitempty"` // the history ends with locally copied transactions and a snapshot: level 0 on the replica lags
}

func genC15(t *rapid.T) c15Case {
	c := c15Case{Case: genRepHist(t, core.Thorough(), false, true)}
	// some acknowledged syncs have a Snapshot request queue up behind them (it waits for the executor while the sync
	// creates the next TXID)
	for i := range c.Ops {
		if c.Ops[i].K == "syncwait" && rapid.IntRange(0, 3).Draw(t, "queuedSnapshot") == 0 {
			c.Ops[i].X = []lsw.Op{{K: "at", M: rapid.SampledFrom([]string{"verify", "sync_page_map", "sync_prepare_ltx"}).Draw(t, "phase"), N: 1, X: []lsw.Op{{K: "bg", M: "snapshot"}}}}
		}
	}
	// one history in three ends while level 0 on the replica lags: transactions copied locally (DB.Sync only) and then a
	// snapshot, which is uploaded at the local position. The newest file on the replica is then a snapshot that is younger
	// than the newest level-0 file, and instants between the two must still restore to a state from before them.
	if rapid.IntRange(0, 2).Draw(t, "level0Lags") == 0 {
		for k := rapid.IntRange(1, 2).Draw(t, "lagRounds"); k > 0; k-- {
			c.Ops = append(c.Ops, lsw.Op{K: "sleep", N: 3}, lsw.Op{K: "insert", T: 0, N: rapid.IntRange(1, 5).Draw(t, "lagRows"), S: 1}, lsw.Op{K: "sync"})
		}
		c.Ops = append(c.Ops, lsw.Op{K: "sleep", N: 3}, lsw.Op{K: "snapshot"})
		c.Lag = true
	}
	c.Pick = rapid.SliceOfN(rapid.IntRange(0, 1<<20), 14, 14).Draw(t, "pick")
	c.CLI = rapid.IntRange(0, 3).Draw(t, "cli") == 0
	return c
}

func execC15(c c15Case) (res core.Result) {
	w, err := lsw.NewWorld(c.Cfg, core.WorkDir("c15"))
	if err != nil {
		panic(fmt.Sprintf("harness: new world: %v", err))
	}
	defer w.Cleanup()
	if err := w.Attach(); err != nil {
		panic(fmt.Sprintf("harness: attach: %v", err))
	}
	ctx := context.Background()
	res.Key = core.HashStrings(c.Abstract(), fmt.Sprint(c.Pick, c.CLI))
	for _, o := range c.Ops {
		switch {
		case o.K == "sleep":
			time.Sleep(time.Duration(o.N) * time.Millisecond)
		case lsw.IsLSOp(o.K):
			w.LSStep(o)
			w.ArchiveL0()
		default:
			w.AppStep(o)
		}
	}
	insideCompacted, exactTS := false, false
	defer func() {
		c01Labels(w, &res)
		if insideCompacted {
			res.Labels = append(res.Labels, "T-inside-compacted-file")
		}
		if exactTS {
			res.Labels = append(res.Labels, "T-equals-a-replication-time")
		}
		if c.CLI {
			res.Labels = append(res.Labels, "via-CalcRestoreTarget")
		}
		res.NonTrivial = insideCompacted || exactTS
	}()
	// recorded replication times: header timestamp of the archived level-0 file of each TXID that reached the replica
	files := lsw.ListLTX(w.ReplicaDir)
	var maxTX ltx.TXID
	for _, f := range files {
		if f.Max > maxTX {
			maxTX = f.Max
		}
	}
	if maxTX == 0 {
		return res
	}
	ts := map[ltx.TXID]int64{}
	for n := ltx.TXID(1); n <= maxTX; n++ {
		cc, err := decodeLTX(filepath.Join(w.ArchiveDir, ltx.FormatFilename(n, n)))
		if err != nil {
			res.Violation = &core.Violation{Oracle: "harness-archive", Msg: fmt.Sprintf("archived level-0 file %d: %v", n, err)}
			return res
		}
		ts[n] = cc.Hdr.Timestamp
		if n > 1 && ts[n] < ts[n-1] {
			res.Labels = append(res.Labels, "clock-regressed")
			return res // precondition of the oracle: replication times non-decreasing
		}
	}
	// logical state of every TXID, from level-0 files alone
	l0dir := l0OnlyDir(w)
	defer os.RemoveAll(l0dir)
	type st struct {
		v int64
		d string
	}
	state := map[ltx.TXID]st{}
	for n := ltx.TXID(1); n <= maxTX; n++ {
		out := filepath.Join(w.Dir, fmt.Sprintf("c15-s%d.db", n))
		if err := lsw.RestoreTo(ctx, l0dir, out, n, lsw.ZeroTime); err != nil {
			res.Violation = &core.Violation{Oracle: "harness-l0only", Msg: fmt.Sprintf("level-0-only restore of %d: %v", n, err)}
			return res
		}
		v, d, _, err := lsw.InspectFile(ctx, out)
		os.Remove(out)
		os.Remove(out + "-wal")
		os.Remove(out + "-shm")
		if err != nil {
			res.Violation = &core.Violation{Oracle: "harness-l0only", Msg: err.Error()}
			return res
		}
		state[n] = st{v, d}
	}
	l0present := map[ltx.TXID]bool{}
	for _, f := range files {
		if f.Level == 0 {
			l0present[f.Max] = true
		}
	}
	// candidate targets
	var cands []int64
	for n := ltx.TXID(1); n <= maxTX; n++ {
		cands = append(cands, ts[n]-1, ts[n], ts[n]+1)
		if n > 1 {
			cands = append(cands, (ts[n]+ts[n-1])/2)
		}
	}
	cands = append(cands, ts[1]-1000, ts[maxTX]+1000)
	chosen := map[int64]bool{}
	for _, p := range c.Pick {
		chosen[cands[p%len(cands)]] = true
	}
	if c.Lag {
		// instants around the replication times of the transactions that reached the replica only inside the snapshot
		var maxL0 ltx.TXID
		for n := range l0present {
			if n > maxL0 {
				maxL0 = n
			}
		}
		if maxL0 > 0 && maxL0 < maxTX {
			res.Labels = append(res.Labels, "level0-lags-behind-snapshot")
			chosen[ts[maxL0]+1] = true
			for n := maxL0 + 1; n <= maxTX; n++ {
				chosen[ts[n]-1] = true
				chosen[ts[n]] = true
			}
		}
	}
	var targets []int64
	for t := range chosen {
		targets = append(targets, t)
	}
	sort.Slice(targets, func(i, j int) bool { return targets[i] < targets[j] })

	client := file.NewReplicaClient(w.ReplicaDir)
	lastV := int64(-1)
	var lastT int64
	for _, tm := range targets {
		T := time.UnixMilli(tm).UTC()
		// e(T) = max{n : ts(n) < T}
		var e ltx.TXID
		for n := ltx.TXID(1); n <= maxTX; n++ {
			if ts[n] < tm {
				e = n
			}
		}
		for n := ltx.TXID(1); n <= maxTX; n++ {
			if ts[n] == tm {
				exactTS = true
			}
		}
		for _, f := range files {
			if f.Level > 0 && f.Level < 9 && f.Min < f.Max && e >= f.Min && e < f.Max {
				insideCompacted = true
			}
		}
		fail := func(oracle, format string, a ...any) core.Result {
			res.Violation = &core.Violation{Oracle: oracle, Msg: fmt.Sprintf("T=%d (e(T)=%d, ts=%v): ", tm, e, tsList(ts, maxTX)) + fmt.Sprintf(format, a...)}
			return res
		}
		res.Evals++
		out := filepath.Join(w.Dir, fmt.Sprintf("c15-t%d.db", tm))
		var rerr error
		if c.CLI {
			r := litestream.NewReplicaWithClient(nil, file.NewReplicaClient(w.ReplicaDir))
			opt := litestream.NewRestoreOptions()
			opt.OutputPath, opt.Timestamp = out, T
			if _, rerr = r.CalcRestoreTarget(ctx, opt); rerr == nil {
				rerr = r.Restore(ctx, opt)
			}
		} else {
			rerr = lsw.RestoreTo(ctx, w.ReplicaDir, out, 0, T)
		}
		// (v) the plan uses no file created at or after T
		if plan, perr := litestream.CalcRestorePlan(ctx, client, 0, T, discardLogger); perr == nil {
			for _, f := range plan {
				if !f.CreatedAt.Before(T) {
					return fail("plan-uses-later-file", "plan contains L%d %d-%d created at %d", f.Level, f.MinTXID, f.MaxTXID, f.CreatedAt.UnixMilli())
				}
			}
		}
		if rerr != nil {
			os.Remove(out)
			if e >= 1 && !c.CLI {
				// with every level-0 file 1..e(T) present a restore must be possible
				all := true
				for n := ltx.TXID(1); n <= e; n++ {
					all = all && l0present[n]
				}
				if all {
					return fail("restore-refused", "restore fails (%v) although level-0 files 1..%d replicated before T are all present", rerr, e)
				}
			}
			continue
		}
		v, d, ic, err := lsw.InspectFile(ctx, out)
		os.Remove(out)
		os.Remove(out + "-wal")
		os.Remove(out + "-shm")
		if err != nil || ic != "ok" {
			return fail("restored-unusable", "restored database unusable: ic=%q err=%v", ic, err)
		}
		if e == 0 {
			return fail("before-first-backup", "T is not after the first replication time yet restore returned version %d", v)
		}
		if want, ok := w.Ledger[v]; !ok || want != d {
			return fail("not-a-committed-state", "restored version %d/%s is not a committed state of the source", v, d)
		}
		if v > state[e].v {
			return fail("data-from-after-T", "restored version %d, but the last transaction replicated before T (TXID %d) has version %d", v, e, state[e].v)
		}
		all := true
		for n := ltx.TXID(1); n <= e; n++ {
			all = all && l0present[n]
		}
		if all && (v != state[e].v || d != state[e].d) {
			return fail("not-the-last-before-T", "all level-0 files are present but restore gives version %d, last transaction before T (TXID %d) has version %d", v, e, state[e].v)
		}
		if lastV >= 0 && v < lastV {
			return fail("not-monotone", "T=%d gives version %d but the earlier T=%d gave version %d", tm, v, lastT, lastV)
		}
		lastV, lastT = v, tm
	}
	return res
}

func tsList(ts map[ltx.TXID]int64, max ltx.TXID) []int64 {
	var a []int64
	for n := ltx.TXID(1); n <= max; n++ {
		a = append(a, ts[n])
	}
	return a
}

func TestProp_C15(t *testing.T) {
	core.Check(t, "C15", genC15, execC15)
}
