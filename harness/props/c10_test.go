package props

// C10 — restore fails loudly rather than produce a wrong or partial database.
//
// A replica is produced by a short generated history. Copies of it are damaged
// (truncate / flip a bit / delete a file) or served through a faulty reader,
// and every restore runs in the lsdriver child process so that a panic or a
// process death is attributed to its case instead of killing the harness.

import (
	"bytes"
	"context"
	"database/sql"
	"fmt"
	"github.com/superfly/ltx"
	"os"
	"path/filepath"
	"sync"
	"testing"
	"time"

	"github.com/benbjohnson/litestream"
	"github.com/benbjohnson/litestream/file"
	"pgregory.net/rapid"

	"verifharness/core"
	"verifharness/drv"
	"verifharness/inject"
	"verifharness/lsw"
)

type c10Damage struct {
	Kind      string         `json:"kind"` // truncate | flip | delete | readfault | exists | tmp-exists | integrity | image
	File      int            `json:"file,omitempty"`
	Off       int            `json:"off,omitempty"`
	Bit       int            `json:"bit,omitempty"`
	InPlan    bool           `json:"in_plan,omitempty"`
	Plan      []inject.Fault `json:"plan,omitempty"`
	Integrity int            `json:"integrity,omitempty"`
}

type c10Case struct {
	Hist     lsw.Case    `json:"hist"`
	Scribble bool        `json:"scribble,omitempty"` // corrupt a b-tree page of the source before the first sync
	Damages  []c10Damage `json:"damages"`
}

var (
	c10Mu   sync.Mutex
	c10Proc *drv.Proc
)

func c10Worker() *drv.Proc {
	c10Mu.Lock()
	defer c10Mu.Unlock()
	if c10Proc == nil || c10Proc.Dead() {
		p, err := drv.Start()
		if err != nil {
			panic(fmt.Sprintf("harness: cannot start lsdriver (%s): %v", drv.Bin(), err))
		}
		c10Proc = p
	}
	return c10Proc
}

func genC10Hist(t *rapid.T) lsw.Case {
	cfg := lsw.GenConfig(t, false)
	cfg.PageSize = rapid.SampledFrom([]int{512, 512, 1024, 4096}).Draw(t, "ps")
	cfg.Levels = rapid.IntRange(1, 2).Draw(t, "levels")
	cfg.MaxSyncFr = 0
	m := lsw.NewGenModel(cfg)
	ops := []lsw.Op{{K: "syncwait"}}
	n := rapid.IntRange(3, 12).Draw(t, "steps")
	for i := 0; i < n; i++ {
		switch rapid.IntRange(0, 9).Draw(t, "which") {
		case 0, 1, 2, 3, 4:
			o := m.AppOp(t)
			if o.K == "begin" || o.K == "beginread" {
				o = lsw.Op{K: "insert", T: 0, N: 3, S: 1}
			}
			ops = append(ops, o)
		case 5, 6, 7:
			ops = append(ops, lsw.Op{K: "syncwait"})
		case 8:
			ops = append(ops, lsw.Op{K: "compact", L: rapid.IntRange(1, cfg.Levels).Draw(t, "level")})
		case 9:
			ops = append(ops, lsw.Op{K: "snapshot"})
		}
	}
	ops = append(ops, m.CloseOutTx()...)
	ops = append(ops, lsw.Op{K: "syncwait"})
	return lsw.Case{Cfg: cfg, Ops: ops}
}

func genC10(t *rapid.T) c10Case {
	c := c10Case{Hist: genC10Hist(t)}
	c.Scribble = rapid.IntRange(0, 7).Draw(t, "scribble") == 0
	nd := rapid.IntRange(6, 24).Draw(t, "ndamages")
	for i := 0; i < nd; i++ {
		var d c10Damage
		r := rapid.IntRange(0, 99).Draw(t, "dkind")
		switch {
		case r < 35:
			d.Kind = "truncate"
		case r < 75:
			d.Kind = "flip"
		case r < 83:
			d.Kind = "delete"
		case r < 88:
			d.Kind = "readfault"
			nf := rapid.IntRange(1, 2).Draw(t, "nfaults")
			if rapid.IntRange(0, 9).Draw(t, "beyondBudget") == 0 {
				nf = 5
			}
			for k := 0; k < nf; k++ {
				d.Plan = append(d.Plan, inject.Fault{Code: rapid.SampledFrom([]int{inject.ReadErrorAt, inject.ReadEOFAt, inject.FailBefore}).Draw(t, "code"), Arg: rapid.IntRange(0, 4000).Draw(t, "at")})
			}
			d.Plan = append(d.Plan, inject.Fault{}, inject.Fault{}, inject.Fault{}, inject.Fault{}, inject.Fault{}, inject.Fault{}, inject.Fault{}, inject.Fault{})
		case r < 92:
			d.Kind = "exists"
		case r < 94:
			d.Kind = "tmp-exists"
		case r < 97:
			d.Kind = "integrity"
			d.Integrity = rapid.IntRange(0, 2).Draw(t, "integrity")
		default:
			// an intact replica (every checksum passes) of a database image that is damaged inside: junk written into
			// the file header, the schema page, or any other page, restored with a requested integrity check
			d.Kind = "image"
			d.Integrity = rapid.IntRange(0, 2).Draw(t, "integrity")
		}
		d.File = rapid.IntRange(0, 1<<16).Draw(t, "file")
		d.Off = rapid.IntRange(0, 1<<20).Draw(t, "off")
		d.Bit = rapid.IntRange(0, 7).Draw(t, "bit")
		d.InPlan = rapid.IntRange(0, 4).Draw(t, "inplan") > 0
		c.Damages = append(c.Damages, d)
	}
	return c
}

func copyTree(src, dst string) error {
	return filepath.Walk(src, func(p string, fi os.FileInfo, err error) error {
		if err != nil {
			return err
		}
		rel, _ := filepath.Rel(src, p)
		q := filepath.Join(dst, rel)
		if fi.IsDir() {
			return os.MkdirAll(q, 0o755)
		}
		b, err := os.ReadFile(p)
		if err != nil {
			return err
		}
		if err := os.WriteFile(q, b, 0o644); err != nil {
			return err
		}
		return os.Chtimes(q, fi.ModTime(), fi.ModTime())
	})
}

// buildC10Replica runs the history and returns the world (replica in w.ReplicaDir).
func buildC10Replica(c c10Case, scratch string) (*lsw.World, bool) {
	w, err := lsw.NewWorld(c.Hist.Cfg, core.WorkDir(scratch))
	if err != nil {
		panic(fmt.Sprintf("harness: new world: %v", err))
	}
	scribbled := false
	if c.Scribble {
		// rows first, checkpoint them into the main file, then overwrite the b-tree page of t0 with garbage
		w.AppStep(lsw.Op{K: "insert", T: 0, N: 12, S: 1})
		w.AppStep(lsw.Op{K: "appckpt", M: "TRUNCATE"})
		var root int
		_ = w.LedgerDB().QueryRow(`SELECT rootpage FROM sqlite_master WHERE name='t0'`).Scan(&root)
		w.CloseAllApp()
		if root > 1 {
			f, err := os.OpenFile(w.DBPath, os.O_RDWR, 0)
			if err == nil {
				junk := bytes.Repeat([]byte{0xA5}, 64)
				_, _ = f.WriteAt(junk, int64(root-1)*int64(c.Hist.Cfg.PageSize))
				f.Close()
				scribbled = true
			}
		}
		if err := w.ReopenApp(); err != nil {
			panic(fmt.Sprintf("harness: reopen: %v", err))
		}
	}
	if err := w.Attach(); err != nil {
		panic(fmt.Sprintf("harness: attach: %v", err))
	}
	for _, o := range c.Hist.Ops {
		if scribbled && !lsw.IsLSOp(o.K) {
			continue // the application would trip over the corruption; only litestream runs
		}
		if lsw.IsLSOp(o.K) {
			w.LSStep(o)
		} else {
			w.AppStep(o)
		}
	}
	_ = w.Detach()
	return w, scribbled
}

func execC10(c c10Case) (res core.Result) {
	w, scribbled := buildC10Replica(c, "c10")
	defer w.Cleanup()
	ctx := context.Background()
	res.Key = core.HashStrings(c.Hist.Abstract(), core.HashJSON(c.Damages), fmt.Sprint(c.Scribble))
	files := lsw.ListLTX(w.ReplicaDir)
	if len(files) == 0 {
		res.Labels = append(res.Labels, "empty-replica")
		return res
	}
	// baseline: bytes of an undamaged restore, and the plan
	base := filepath.Join(w.Dir, "base.db")
	if err := lsw.RestoreTo(ctx, w.ReplicaDir, base, 0, lsw.ZeroTime); err != nil {
		res.Labels = append(res.Labels, "baseline-unrestorable")
		return res
	}
	B, _ := os.ReadFile(base)
	os.Remove(base)
	plan, err := litestream.CalcRestorePlan(ctx, file.NewReplicaClient(w.ReplicaDir), 0, lsw.ZeroTime, discardLogger)
	if err != nil {
		return res
	}
	inPlan := map[string]bool{}
	var planFiles, otherFiles []lsw.RFile
	for _, p := range plan {
		inPlan[fmt.Sprintf("%d/%d-%d", p.Level, p.MinTXID, p.MaxTXID)] = true
	}
	for _, f := range files {
		if inPlan[fmt.Sprintf("%d/%d-%d", f.Level, f.Min, f.Max)] {
			planFiles = append(planFiles, f)
		} else {
			otherFiles = append(otherFiles, f)
		}
	}
	defer func() {
		res.Labels = append(res.Labels, fmt.Sprintf("planfiles:%d", len(planFiles)))
		if scribbled {
			res.Labels = append(res.Labels, "scribbled-source")
		}
	}()
	for di, d := range c.Damages {
		v, label, nontrivial := runC10Damage(w, d, di, B, planFiles, otherFiles, scribbled)
		res.Evals++
		res.Labels = append(res.Labels, label)
		if nontrivial {
			res.NonTrivial = true
		}
		if v != nil {
			res.Violation = v
			return res
		}
	}
	return res
}

// runC10Damage applies one damage to a fresh copy of the replica and restores through the child.
func runC10Damage(w *lsw.World, d c10Damage, di int, B []byte, planFiles, otherFiles []lsw.RFile, scribbled bool) (*core.Violation, string, bool) {
	dir := filepath.Join(w.Dir, fmt.Sprintf("dmg%d", di))
	rep := filepath.Join(dir, "replica")
	out := filepath.Join(dir, "out", "restored.db")
	_ = os.MkdirAll(filepath.Dir(out), 0o755)
	defer os.RemoveAll(dir)
	if err := copyTree(w.ReplicaDir, rep); err != nil {
		panic(fmt.Sprintf("harness: copy replica: %v", err))
	}
	pick := planFiles
	if !d.InPlan && len(otherFiles) > 0 {
		pick = otherFiles
	}
	nontrivial := false
	label := "dmg:" + d.Kind
	desc := d.Kind
	cmd := map[string]any{"op": "restore", "replica": rep, "out": out}
	var preExisting []byte
	var altB []byte
	imageBad := false
	var imageBytes []byte
	switch d.Kind {
	case "truncate", "flip", "delete":
		f := pick[d.File%len(pick)]
		p := filepath.Join(rep, "ltx", fmt.Sprint(f.Level), filepath.Base(f.Path))
		b, _ := os.ReadFile(p)
		fi, _ := os.Stat(p)
		isPlan := d.InPlan || len(otherFiles) == 0
		switch d.Kind {
		case "truncate":
			if len(b) == 0 {
				return nil, label, false
			}
			k := d.Off % len(b)
			b = b[:k]
			desc = fmt.Sprintf("truncate L%d %d-%d at %d of %d", f.Level, f.Min, f.Max, k, fi.Size())
			_ = os.WriteFile(p, b, 0o644)
			_ = os.Chtimes(p, fi.ModTime(), fi.ModTime())
		case "flip":
			if len(b) == 0 {
				return nil, label, false
			}
			k := d.Off % len(b)
			b[k] ^= 1 << uint(d.Bit)
			desc = fmt.Sprintf("flip bit %d of byte %d/%d in L%d %d-%d", d.Bit, k, len(b), f.Level, f.Min, f.Max)
			_ = os.WriteFile(p, b, 0o644)
			_ = os.Chtimes(p, fi.ModTime(), fi.ModTime())
		case "delete":
			desc = fmt.Sprintf("delete L%d %d-%d", f.Level, f.Min, f.Max)
			_ = os.Remove(p)
			// Deleting the tail of the chain leaves a shorter but complete replica: restoring the state just
			// before the deleted file is then the correct outcome (no implementation could tell the difference).
			tail := true
			for _, g := range append(append([]lsw.RFile(nil), planFiles...), otherFiles...) {
				if !(g.Level == f.Level && g.Min == f.Min && g.Max == f.Max) && g.Max >= f.Min {
					tail = false
				}
			}
			if tail && f.Min > 1 {
				alt := filepath.Join(dir, "alt.db")
				if err := lsw.RestoreTo(context.Background(), w.ReplicaDir, alt, f.Min-1, lsw.ZeroTime); err == nil {
					altB, _ = os.ReadFile(alt)
				}
				os.Remove(alt)
			}
		}
		nontrivial = isPlan
		if isPlan {
			label += ":in-plan"
		} else {
			label += ":outside-plan"
		}
	case "readfault":
		cmd["plan"] = d.Plan
		nf := 0
		for _, f := range d.Plan {
			if f.Code != inject.OK {
				nf++
			}
		}
		desc = fmt.Sprintf("read faults %+v", d.Plan[:nf])
		nontrivial = nf > 0
		if nf > 3 {
			label += ":beyond-retry-budget"
		}
	case "exists":
		preExisting = []byte("pre-existing output file, must not be touched")
		_ = os.WriteFile(out, preExisting, 0o644)
		nontrivial = true
	case "tmp-exists":
		_ = os.WriteFile(out+".tmp", []byte("stale temp file"), 0o644)
		nontrivial = true
	case "image":
		// replace the copied replica by a single snapshot file that encodes a damaged copy of the restored image
		ps := w.Cfg.PageSize
		img := append([]byte(nil), B...)
		if len(img) < 2*ps {
			return nil, label, false
		}
		var at int
		switch d.File % 4 {
		case 0:
			at = 0 // file header ("file is not a database")
		case 1:
			at = 100 // b-tree header of the schema page ("malformed")
		default:
			at = (1+d.Off%(len(img)/ps-1))*ps + 0 // first bytes of some other page
		}
		copy(img[at:], bytes.Repeat([]byte{0xA5}, 48))
		_ = os.RemoveAll(rep)
		l9 := filepath.Join(rep, "ltx", "9")
		_ = os.MkdirAll(l9, 0o755)
		if err := c10EncodeImage(filepath.Join(l9, ltx.FormatFilename(1, 1)), img, ps); err != nil {
			panic(fmt.Sprintf("harness: encode image: %v", err))
		}
		cmd["integrity"] = d.Integrity
		imageBad = c10ImageFails(dir, img, d.Integrity)
		imageBytes = img
		desc = fmt.Sprintf("intact replica of an image with junk at byte %d, integrity mode %d (own check fails: %v)", at, d.Integrity, imageBad)
		nontrivial = imageBad
		label += fmt.Sprintf(":mode%d", d.Integrity)
		if imageBad {
			label += ":bad"
		}
	case "integrity":
		cmd["integrity"] = d.Integrity
		desc = fmt.Sprintf("integrity mode %d scribbled=%v", d.Integrity, scribbled)
		nontrivial = scribbled && d.Integrity != 0
		label += fmt.Sprintf(":mode%d", d.Integrity)
	}
	p := c10Worker()
	r := p.Do(cmd)
	fail := func(oracle, format string, a ...any) (*core.Violation, string, bool) {
		return &core.Violation{Oracle: oracle, Msg: fmt.Sprintf("damage #%d (%s): ", di, desc) + fmt.Sprintf(format, a...)}, label, nontrivial
	}
	if r.Crashed {
		return fail("restore-crashed", "the restoring process died instead of returning an error: %s", r.Stderr)
	}
	got, statErr := os.ReadFile(out)
	_, tmpErr := os.Stat(out + ".tmp")
	if d.Kind == "exists" {
		if r.OK {
			return fail("overwrote-existing", "restore returned nil although the output path already existed")
		}
		if statErr != nil || !bytes.Equal(got, preExisting) {
			return fail("overwrote-existing", "pre-existing output file was modified or removed")
		}
		return nil, label, nontrivial
	}
	if tmpErr == nil {
		return fail("tmp-left-behind", "%s.tmp still exists after restore returned (ok=%v err=%q)", filepath.Base(out), r.OK, r.Err)
	}
	if r.OK {
		if statErr != nil {
			return fail("no-output", "restore returned nil but the output path does not exist")
		}
		if d.Kind == "integrity" && scribbled && d.Integrity != 0 {
			return fail("integrity-not-enforced", "restore returned nil although the restored database fails the requested integrity check")
		}
		if d.Kind == "image" {
			if imageBad {
				return fail("integrity-not-enforced", "restore returned nil although the restored image fails the requested integrity check (%s)", desc)
			}
			if !bytes.Equal(got, imageBytes) {
				return fail("silent-wrong-restore", "restore returned nil but the output differs from the replicated image (%s)", desc)
			}
			return nil, label + ":ok", nontrivial
		}
		if altB != nil && bytes.Equal(got, altB) {
			return nil, label + ":ok-shorter-chain", nontrivial
		}
		if !bytes.Equal(got, B) {
			return fail("silent-wrong-restore", "restore returned nil but the output (%d bytes) differs from the undamaged restore (%d bytes)", len(got), len(B))
		}
		return nil, label + ":ok", nontrivial
	}
	if os.Getenv("VERIF_TRACE") != "" {
		fmt.Printf("TRACE damage %s -> error %s\n", desc, r.Err)
	}
	// error: no partial file at the output path
	if statErr == nil {
		return fail("partial-output", "restore failed (%s) but left a file of %d bytes at the output path", r.Err, len(got))
	}
	return nil, label + ":error", nontrivial
}

// c10EncodeImage writes img as one LTX snapshot file (TXID 1-1).
func c10EncodeImage(path string, img []byte, ps int) error {
	f, err := os.Create(path)
	if err != nil {
		return err
	}
	defer f.Close()
	enc, err := ltx.NewEncoder(f)
	if err != nil {
		return err
	}
	commit := uint32(len(img) / ps)
	if err := enc.EncodeHeader(ltx.Header{Version: ltx.Version, Flags: ltx.HeaderFlagNoChecksum, PageSize: uint32(ps), Commit: commit, MinTXID: 1, MaxTXID: 1, Timestamp: time.Now().UnixMilli()}); err != nil {
		return err
	}
	lock := ltx.LockPgno(uint32(ps))
	for pg := uint32(1); pg <= commit; pg++ {
		if pg == lock {
			continue
		}
		if err := enc.EncodePage(ltx.PageHeader{Pgno: pg}, img[int(pg-1)*ps:int(pg)*ps]); err != nil {
			return err
		}
	}
	if err := enc.Close(); err != nil {
		return err
	}
	return f.Sync()
}

// c10ImageFails runs the requested check with the harness's own SQLite connection on a scratch copy of the image:
// true when the PRAGMA errors or returns anything but "ok" (mode 0: never).
func c10ImageFails(dir string, img []byte, mode int) bool {
	if mode == 0 {
		return false
	}
	p := filepath.Join(dir, "imgcheck.db")
	_ = os.WriteFile(p, img, 0o644)
	defer func() {
		os.Remove(p)
		os.Remove(p + "-wal")
		os.Remove(p + "-shm")
	}()
	db, err := sql.Open("sqlite", p)
	if err != nil {
		return true
	}
	defer db.Close()
	pragma := "quick_check"
	if mode == 2 {
		pragma = "integrity_check"
	}
	var res string
	if err := db.QueryRow("PRAGMA " + pragma).Scan(&res); err != nil {
		return true
	}
	return res != "ok"
}

func TestProp_C10(t *testing.T) {
	defer func() {
		if c10Proc != nil {
			c10Proc.Close()
		}
	}()
	core.Check(t, "C10", genC10, execC10)
}

// TestEnum_C10 enumerates, for fixed small replicas, every truncation offset and a
// bit flip at every byte of every file of the restore plan (fault enumeration).
func TestEnum_C10(t *testing.T) {
	if os.Getenv("VERIF_ENUM") == "" {
		t.Skip("enumeration runs only when VERIF_ENUM is set")
	}
	core.Register("C10", execC10)
	defer core.FlushStats()
	defer func() {
		if c10Proc != nil {
			c10Proc.Close()
		}
	}()
	shard, shards := core.EnvInt("VERIF_SHARD", 0), core.EnvInt("VERIF_SHARDS", 1)
	nrep := core.EnvInt("VERIF_ENUM_REPLICAS", 2)
	stride := core.EnvInt("VERIF_ENUM_STRIDE", 1) // 1 = every offset
	evals, nontrivial := 0, 0
	var sample any
	for ri := 0; ri < nrep; ri++ {
		hist := fixedC10Hist(ri)
		c := c10Case{Hist: hist}
		w, _ := buildC10Replica(c, "c10e")
		files := lsw.ListLTX(w.ReplicaDir)
		base := filepath.Join(w.Dir, "base.db")
		if err := lsw.RestoreTo(context.Background(), w.ReplicaDir, base, 0, lsw.ZeroTime); err != nil {
			w.Cleanup()
			t.Fatalf("fixed replica %d not restorable: %v", ri, err)
		}
		B, _ := os.ReadFile(base)
		os.Remove(base)
		plan, _ := litestream.CalcRestorePlan(context.Background(), file.NewReplicaClient(w.ReplicaDir), 0, lsw.ZeroTime, discardLogger)
		var planFiles []lsw.RFile
		for _, p := range plan {
			for _, f := range files {
				if f.Level == p.Level && f.Min == p.MinTXID && f.Max == p.MaxTXID {
					planFiles = append(planFiles, f)
				}
			}
		}
		idx := 0
		for fi, f := range planFiles {
			for off := 0; off < int(f.Size); off += stride {
				for _, kind := range []string{"truncate", "flip"} {
					idx++
					if idx%shards != shard {
						continue
					}
					d := c10Damage{Kind: kind, File: fi, Off: off, Bit: off % 8, InPlan: true}
					v, _, _ := runC10Damage(w, d, idx, B, planFiles, nil, false)
					evals++
					nontrivial++
					if evals%500 == 1 {
						sample = map[string]any{"replica": ri, "damage": d, "file_size": f.Size}
					}
					if v != nil {
						cc := c10Case{Hist: hist, Damages: []c10Damage{d}}
						core.RunOne(t, "C10", cc, execC10)
						w.Cleanup()
						return
					}
				}
			}
		}
		w.Cleanup()
	}
	core.Record("C10", sample, core.Result{Key: fmt.Sprintf("enum-shard-%d", shard), NonTrivial: true, Evals: evals,
		Notes:  map[string]int{"enum_evals": evals, "enum_nontrivial_distinct": nontrivial},
		Sample: map[string]any{"enumeration": fmt.Sprintf("%d fixed replicas x every plan file x every byte offset (stride %d) x {truncate, flip}; shard %d/%d", nrep, stride, shard, shards), "example": sample}})
}

// fixedC10Hist returns deterministic small histories for the enumeration.
func fixedC10Hist(i int) lsw.Case {
	cfg := lsw.Config{PageSize: 512, MinCkpt: 1000, Levels: 2, MaxSyncFr: 0}
	if i%2 == 1 {
		cfg.PageSize = 1024
	}
	ops := []lsw.Op{{K: "syncwait"}, {K: "insert", T: 0, N: 3 + i, S: 1}, {K: "syncwait"}, {K: "update", T: 0, A: 0, B: 100}, {K: "syncwait"}}
	switch i % 3 {
	case 1:
		ops = append(ops, lsw.Op{K: "compact", L: 1}, lsw.Op{K: "insert", T: 0, N: 2, S: 2}, lsw.Op{K: "syncwait"})
	case 2:
		ops = append(ops, lsw.Op{K: "snapshot"}, lsw.Op{K: "delete", T: 0, A: 0, B: 50}, lsw.Op{K: "syncwait"}, lsw.Op{K: "compact", L: 1}, lsw.Op{K: "compact", L: 2})
	}
	return lsw.Case{Cfg: cfg, Ops: ops}
}
