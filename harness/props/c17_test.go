package props

// C17 — databases crossing the 1 GiB lock page replicate and restore correctly.
//
// The bulk (~1 GiB of zeroblob rows) is loaded with journal_mode=OFF before
// litestream is attached, on tmpfs, so only the last few transactions go
// through the WAL. The grid is small and finite; rapid draws grid points.

import (
	"bytes"
	"context"
	"database/sql"
	"fmt"
	"os"
	"path/filepath"
	"testing"

	"github.com/benbjohnson/litestream"
	"github.com/benbjohnson/litestream/file"
	"github.com/superfly/ltx"
	"pgregory.net/rapid"

	"verifharness/core"
	"verifharness/lsw"
	"verifharness/refwal"
)

type c17Case struct {
	PS    int `json:"ps"`
	Start int `json:"start"` // committed size before litestream attaches, in pages relative to the lock page: -1 = lock page just beyond the end, +1 = second-to-last, ...
	Grow  int `json:"grow"`  // pages added in ONE transaction after the first sync (may carry the database across the boundary)
}

var c17PageSizesQuick = []int{4096, 16384, 65536, 8192}
var c17PageSizesAll = []int{512, 1024, 2048, 4096, 8192, 16384, 32768, 65536}
var c17Starts = []int{-40, -3, -1, 1, 2, 30}
var c17Grows = []int{0, 3, 50}

func genC17(t *rapid.T) c17Case {
	pss := c17PageSizesQuick
	if core.Thorough() {
		pss = c17PageSizesAll
	}
	return c17Case{
		PS:    rapid.SampledFrom(pss).Draw(t, "ps"),
		Start: rapid.SampledFrom(c17Starts).Draw(t, "start"),
		Grow:  rapid.SampledFrom(c17Grows).Draw(t, "grow"),
	}
}

func c17Preload(path string, ps int, target int64) (int64, error) {
	db, err := sql.Open("sqlite", fmt.Sprintf("file:%s?_pragma=busy_timeout(1000)", path))
	if err != nil {
		return 0, err
	}
	defer db.Close()
	db.SetMaxOpenConns(1)
	for _, q := range []string{`PRAGMA journal_mode=OFF`, `PRAGMA synchronous=OFF`, `PRAGMA cache_size=-20000`,
		`CREATE TABLE IF NOT EXISTS bulk (id INTEGER PRIMARY KEY, k INTEGER, v BLOB)`} {
		if _, err := db.Exec(q); err != nil {
			return 0, fmt.Errorf("%s: %w", q, err)
		}
	}
	pages := func() int64 {
		var n int64
		_ = db.QueryRow(`PRAGMA page_count`).Scan(&n)
		return n
	}
	usable := int64(ps - 4)
	// a small first row: the "touch both ends" update must not have to rewrite a 64 MiB overflow chain
	if _, err := db.Exec(`INSERT INTO bulk(k,v) VALUES(0, zeroblob(10))`); err != nil {
		return 0, err
	}
	for {
		left := target - pages()
		var blob int64
		switch {
		case left > 6000*int64(65536/ps)+64:
			blob = 64 << 20
			if blob/usable > left-64 {
				blob = (left - 64) * usable
			}
		case left > 40:
			blob = (left - 20) * usable
		case left > 0:
			blob = usable / 2 // roughly one leaf page per one or two rows
		default:
			return pages(), nil
		}
		if _, err := db.Exec(`INSERT INTO bulk(k,v) VALUES(1, zeroblob(?))`, blob); err != nil {
			return 0, err
		}
	}
}

func execC17(c c17Case) (res core.Result) {
	ctx := context.Background()
	lock := int64(ltx.LockPgno(uint32(c.PS)))
	cfg := lsw.Config{PageSize: c.PS, MinCkpt: 1000000, TruncN: 0, Levels: 1, MaxSyncFr: 0}
	w, err := lsw.NewWorld(cfg, core.WorkDir("c17"))
	if err != nil {
		panic(fmt.Sprintf("harness: new world: %v", err))
	}
	defer w.Cleanup()
	w.SkipLedger = true
	res.Key = core.HashJSON(c)
	res.NonTrivial = true // every grid point places the lock page at, next to, or inside the committed range
	// bulk load without WAL, then back to WAL mode
	w.CloseAllApp()
	_ = os.Remove(w.DBPath + "-wal")
	_ = os.Remove(w.DBPath + "-shm")
	target := lock + int64(c.Start)
	if c.Start < 0 {
		target = lock + int64(c.Start) // e.g. -1: last page is lock-1
	}
	got, err := c17Preload(w.DBPath, c.PS, target)
	if err != nil {
		panic(fmt.Sprintf("harness: preload: %v", err))
	}
	if err := w.ReopenApp(); err != nil {
		panic(fmt.Sprintf("harness: reopen: %v", err))
	}
	res.Labels = append(res.Labels, fmt.Sprintf("ps:%d", c.PS), fmt.Sprintf("start:%+d(actual %+d)", c.Start, got-lock))
	if err := w.Attach(); err != nil {
		panic(fmt.Sprintf("harness: attach: %v", err))
	}
	fail := func(oracle, format string, a ...any) core.Result {
		res.Violation = &core.Violation{Oracle: oracle, Msg: fmt.Sprintf("ps=%d lock page=%d start=%d pages: ", c.PS, lock, got) + fmt.Sprintf(format, a...)}
		return res
	}
	step := func(name string, o lsw.Op) *core.Violation {
		sr := w.LSStep(o)
		if sr.Err != nil {
			return &core.Violation{Oracle: "operation-failed", Msg: fmt.Sprintf("ps=%d lock page=%d: %s failed on a database around the lock page: %v", c.PS, lock, name, sr.Err)}
		}
		return nil
	}
	pageCount := func() int64 { n, _ := w.QueryInt(`PRAGMA page_count`); return n }
	// 1. first sync: full-database encoding
	if v := step("first sync (snapshot path)", lsw.Op{K: "syncwait"}); v != nil {
		res.Violation = v
		return res
	}
	// 2. growth in one transaction (possibly across the boundary): growth pages are filled from the database file
	if c.Grow > 0 {
		if err := w.Exec(`INSERT INTO bulk(k,v) VALUES(2, zeroblob(?))`, int64(c.Grow)*int64(c.PS-4)); err != nil {
			panic(fmt.Sprintf("harness: grow: %v", err))
		}
		if pageCount() > lock && got < lock {
			res.Labels = append(res.Labels, "grew-across-lock-page")
		}
		if v := step("incremental sync after growth", lsw.Op{K: "syncwait"}); v != nil {
			res.Violation = v
			return res
		}
	}
	// 3. touch pages on both sides of the boundary in one transaction
	if err := w.Exec(`UPDATE bulk SET k=k+1 WHERE id=(SELECT min(id) FROM bulk) OR id=(SELECT max(id) FROM bulk)`); err != nil {
		panic(fmt.Sprintf("harness: touch: %v", err))
	}
	if v := step("incremental sync touching both ends", lsw.Op{K: "syncwait"}); v != nil {
		res.Violation = v
		return res
	}
	// restore: same length, every page equal except the lock page, which is empty
	out := filepath.Join(w.Dir, "restored.db")
	compareRestore := func(label string) *core.Result {
		dbb, err := w.ReadDB()
		if err != nil {
			panic(err)
		}
		wal := w.ReadWAL()
		d := refwal.Decode(wal)
		ref := dbb
		if d.HeaderOK {
			v := d.ViewFrom(0, 0)
			if v.Commit > 0 {
				need := int(v.Commit) * c.PS
				if len(ref) < need {
					ref = append(ref, make([]byte, need-len(ref))...)
				}
				for pg, off := range v.Pages {
					copy(ref[(int(pg)-1)*c.PS:int(pg)*c.PS], wal[off+24:off+24+int64(c.PS)])
				}
				ref = ref[:need]
			}
		}
		_ = os.Remove(out)
		if err := lsw.RestoreTo(ctx, w.ReplicaDir, out, 0, lsw.ZeroTime); err != nil {
			r := fail("restore-failed", "%s: restore: %v", label, err)
			return &r
		}
		rb, err := os.ReadFile(out)
		if err != nil {
			panic(err)
		}
		res.Evals++
		if len(rb) != len(ref) {
			r := fail("restore-size", "%s: restored %d pages, source %d pages", label, len(rb)/c.PS, len(ref)/c.PS)
			return &r
		}
		var seqPage int64
		_ = w.LedgerDB().QueryRow(`SELECT rootpage FROM sqlite_master WHERE name='_litestream_seq'`).Scan(&seqPage)
		zero := make([]byte, c.PS)
		for pg := int64(1); pg*int64(c.PS) <= int64(len(rb)); pg++ {
			a := rb[(pg-1)*int64(c.PS) : pg*int64(c.PS)]
			b := ref[(pg-1)*int64(c.PS) : pg*int64(c.PS)]
			if pg == lock {
				if !bytes.Equal(a, zero) {
					r := fail("lock-page-not-empty", "%s: restored lock page %d is not empty", label, lock)
					return &r
				}
				continue
			}
			if pg == seqPage {
				continue
			}
			if !bytes.Equal(a, b) {
				r := fail("restore-page", "%s: restored page %d differs from the source", label, pg)
				return &r
			}
		}
		return nil
	}
	if r := compareRestore("restore through level 0 only"); r != nil {
		return *r
	}
	// 4. level-9 snapshot (after a checkpoint, so that the pages around the boundary are read from the database file,
	//    not from the WAL) and 5. compaction of the above
	if v := step("checkpoint", lsw.Op{K: "lsckpt", M: "TRUNCATE"}); v != nil {
		res.Violation = v
		return res
	}
	if v := step("snapshot", lsw.Op{K: "snapshot"}); v != nil {
		res.Violation = v
		return res
	}
	if v := step("compaction to L1", lsw.Op{K: "compact", L: 1}); v != nil {
		res.Violation = v
		return res
	}
	final := pageCount()
	res.Labels = append(res.Labels, fmt.Sprintf("final:%+d", final-lock))
	// no replicated file contains the lock page
	client := file.NewReplicaClient(w.ReplicaDir)
	for _, f := range lsw.ListLTX(w.ReplicaDir) {
		idx, err := litestream.FetchPageIndex(ctx, client, &ltx.FileInfo{Level: f.Level, MinTXID: f.Min, MaxTXID: f.Max, Size: f.Size})
		if err != nil {
			return fail("ltx-unreadable", "L%d %d-%d: %v", f.Level, f.Min, f.Max, err)
		}
		res.Evals++
		if _, ok := idx[uint32(lock)]; ok {
			return fail("lock-page-replicated", "L%d %d-%d contains the lock page %d", f.Level, f.Min, f.Max, lock)
		}
	}
	if r := compareRestore("restore through the snapshot"); r != nil {
		return *r
	}
	_ = w.Detach()
	if core.Thorough() {
		rdb, err := sql.Open("sqlite", fmt.Sprintf("file:%s?_pragma=busy_timeout(1000)", out))
		if err == nil {
			var ic string
			err = rdb.QueryRow(`PRAGMA quick_check`).Scan(&ic)
			rdb.Close()
			if err != nil || ic != "ok" {
				return fail("restore-integrity", "quick_check on the restored database: %q %v", ic, err)
			}
		}
	}
	return res
}

func TestProp_C17(t *testing.T) {
	core.Check(t, "C17", genC17, execC17)
}

// TestGrid_C17 covers the grid deterministically: shard s takes every grid point whose index mod shards == s.
func TestGrid_C17(t *testing.T) {
	if os.Getenv("VERIF_ENUM") == "" {
		t.Skip("grid runs only when VERIF_ENUM is set")
	}
	core.Register("C17", execC17)
	defer core.FlushStats()
	shard, shards := core.EnvInt("VERIF_SHARD", 0), core.EnvInt("VERIF_SHARDS", 1)
	seed := core.EnvInt("VERIF_SEED", 1)
	pss := c17PageSizesQuick
	perShard := 1
	if core.Thorough() {
		pss = c17PageSizesAll
		perShard = 1 << 30
	}
	var grid []c17Case
	for _, ps := range pss {
		for _, st := range c17Starts {
			for _, g := range c17Grows {
				grid = append(grid, c17Case{PS: ps, Start: st, Grow: g})
			}
		}
	}
	// quick: each shard takes one point chosen by the seed, always including growth across the boundary at 4096 and 65536
	done := 0
	for i := range grid {
		j := (i + seed*7) % len(grid)
		if j%shards != shard {
			continue
		}
		c := grid[j]
		if !core.Thorough() {
			switch shard {
			case 0:
				c = c17Case{PS: 4096, Start: -3, Grow: 50}
			case 1:
				c = c17Case{PS: 65536, Start: -1, Grow: 3}
			case 2:
				// a database that is already beyond the lock page when litestream first sees it
				c = c17Case{PS: pss[seed%len(pss)], Start: []int{1, 2, 30}[(seed/4)%3], Grow: c17Grows[(seed/12)%3]}
			}
		}
		if !core.RunOne(t, "C17", c, execC17) {
			return
		}
		done++
		if done >= perShard {
			return
		}
	}
}
