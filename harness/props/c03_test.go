package props

// C03 — killing litestream at any instant loses nothing acknowledged and needs no repair.
//
// The litestream side of a scenario runs in the lsdriver child under the ptrace
// supervisor, which SIGKILLs the process at the enter-stop of the k-th
// file-system-mutating system call on the case's directory (the call never
// executes). The application lives in this process and stays idle after the kill.

import (
	"bytes"
	"context"
	"fmt"
	"os"
	"path/filepath"
	"strings"
	"testing"

	"github.com/superfly/ltx"
	"pgregory.net/rapid"

	"verifharness/core"
	"verifharness/lsw"
)

type c03Case struct {
	Cfg      lsw.Config `json:"cfg"`
	Cmds     []pCmd     `json:"cmds"`
	KillPM   int        `json:"kill_pm"`            // kill point as parts-per-10000 of the dry-run call count
	KillAt   int        `json:"kill_at,omitempty"`  // explicit kill index (enumeration); overrides KillPM
	Second   int        `json:"second,omitempty"`   // optional second kill (parts-per-10000 of the restarted session), 0 = none
	Down     []lsw.Op   `json:"down,omitempty"`     // application activity while litestream is dead (between the kill and the restart)
}

func genC03(t *rapid.T) c03Case {
	cfg := lsw.GenConfig(t, false)
	cfg.PageSize = rapid.SampledFrom([]int{512, 1024, 4096}).Draw(t, "ps")
	cfg.Levels = rapid.IntRange(1, 2).Draw(t, "levels")
	cfg.L0RetNS = 1
	cfg.SmallCache = false
	cfg.AppAutoCkpt = 0
	c := c03Case{Cfg: cfg}
	c.Cmds = genProcScenario(t, cfg, rapid.IntRange(4, 10).Draw(t, "n"), true)
	c.KillPM = rapid.IntRange(300, 9999).Draw(t, "killPM")
	if rapid.IntRange(0, 4).Draw(t, "secondKill") == 0 {
		c.Second = rapid.IntRange(1, 9999).Draw(t, "second")
	}
	// the application keeps running while litestream is dead: commits, and checkpoints that nothing holds back now
	if rapid.IntRange(0, 9).Draw(t, "downtime") < 6 {
		for i, n := 0, rapid.IntRange(1, 5).Draw(t, "downOps"); i < n; i++ {
			switch rapid.IntRange(0, 5).Draw(t, "downKind") {
			case 0, 1:
				c.Down = append(c.Down, lsw.Op{K: "insert", T: 0, N: rapid.SampledFrom([]int{1, 3, 12}).Draw(t, "n"), S: rapid.IntRange(0, 2).Draw(t, "size")})
			case 2, 3:
				a := rapid.IntRange(0, 100).Draw(t, "a")
				c.Down = append(c.Down, lsw.Op{K: "update", T: 0, A: a, B: rapid.IntRange(a, 100).Draw(t, "b")})
			default:
				c.Down = append(c.Down, lsw.Op{K: "appckpt", M: rapid.SampledFrom([]string{"PASSIVE", "FULL", "RESTART", "TRUNCATE"}).Draw(t, "downMode")})
			}
		}
	}
	return c
}

// verifyTree checks that every LTX-named entry below root/ltx verifies and carries the TXIDs of its name.
func verifyTree(root string) *core.Violation {
	for _, f := range lsw.ListLTX(root) {
		b, err := os.ReadFile(f.Path)
		if err != nil {
			return &core.Violation{Oracle: "half-written-ltx", Msg: fmt.Sprintf("%s: %v", f.Path, err)}
		}
		dec := ltx.NewDecoder(bytes.NewReader(b))
		if err := dec.Verify(); err != nil {
			return &core.Violation{Oracle: "half-written-ltx", Msg: fmt.Sprintf("%s (%d bytes) is visible under a final LTX name but does not verify: %v", f.Path, len(b), err)}
		}
		if dec.Header().MinTXID != f.Min || dec.Header().MaxTXID != f.Max {
			return &core.Violation{Oracle: "half-written-ltx", Msg: fmt.Sprintf("%s carries TXIDs %d-%d in its header", f.Path, dec.Header().MinTXID, dec.Header().MaxTXID)}
		}
	}
	return nil
}

type c03Ack struct {
	rtx uint64
	v   int64
}

// runC03 executes the scenario; killAt == 0 means dry run (returns the number of mutating calls).
func runC03(c c03Case, killAt int, secondPM int, res *core.Result) (*core.Violation, int) {
	w, err := lsw.NewWorld(c.Cfg, core.WorkDir("c03"))
	if err != nil {
		panic(fmt.Sprintf("harness: new world: %v", err))
	}
	defer w.Cleanup()
	w.NoFastRef = true
	ctx := context.Background()
	s, err := startSession(w, true, killAt, false)
	if err != nil {
		panic(fmt.Sprintf("harness: start traced child: %v", err))
	}
	var acks []c03Ack
	vAtCopy := int64(-1)
	var outs []string
	next := 0
	killedIn := ""
	r := s.open()
	if r.Crashed {
		killedIn = "open"
	}
	for next = 0; next < len(c.Cmds) && killedIn == ""; next++ {
		cmd := c.Cmds[next]
		if cmd.App != nil {
			w.AppStep(*cmd.App)
			continue
		}
		r, out := s.do(cmd)
		if out != "" && r.Crashed {
			outs = append(outs, out) // only the restore that was in flight when the process died is examined post-kill
		}
		if out != "" && r.OK {
			// an acknowledged restore is checked right away: a usable database holding a committed state
			v, d, ic, err := lsw.InspectFile(ctx, out)
			os.Remove(out + "-wal")
			os.Remove(out + "-shm")
			if err != nil || ic != "ok" || w.Ledger[v] != d {
				s.stop()
				return &core.Violation{Oracle: "restore-output-invalid", Msg: fmt.Sprintf("restore returned success but the output is unusable or not a committed state: v=%d ic=%q err=%v", v, ic, err)}, 0
			}
		}
		if r.Crashed {
			killedIn = cmd.class()
			if k, _ := s.sup.Killed(); !k {
				s.stop()
				return &core.Violation{Oracle: "child-crashed", Msg: fmt.Sprintf("child died in %s without being killed by the supervisor: %s", cmd, r.Stderr)}, 0
			}
			break
		}
		if os.Getenv("VERIF_TRACE") != "" {
			fmt.Printf("TRACE %-28s ok=%v err=%q dbtx=%d rtx=%d %s local=%v\n", cmd.String(), r.OK, r.Err, r.DBTX, r.RTX, w.TraceState(), listNames(w.MetaDir()))
		}
		// the state a replicated TXID stands for is the committed state at the last WAL copy, not at upload time
		switch cmd.LS["op"] {
		case "sync", "syncwait", "checkpoint":
			if r.OK {
				vAtCopy = w.LastV
			}
		}
		if r.OK && (cmd.LS["op"] == "syncwait" || cmd.LS["op"] == "rsync") && r.RTX > 0 && vAtCopy >= 0 && r.RTX == r.DBTX {
			acks = append(acks, c03Ack{r.RTX, vAtCopy})
		}
	}
	n := s.sup.MutCount()
	if killedIn == "" {
		s.proc.Do(map[string]any{"op": "close"})
		s.stop()
		if killAt == 0 {
			return nil, n
		}
		res.Labels = append(res.Labels, "kill-point-beyond-run")
		return nil, n
	}
	s.stop()
	_, kev := s.sup.Killed()
	res.Labels = append(res.Labels, "killed-in:"+killedIn)
	if kev != nil {
		res.Labels = append(res.Labels, "killed-before:"+kev.Name)
	}
	if killedIn != "open" {
		res.NonTrivial = true
	}
	desc := fmt.Sprintf("killed before mutating call #%d (%v) during %s", killAt, kev, killedIn)
	fail := func(v *core.Violation) (*core.Violation, int) {
		v.Msg = desc + ": " + v.Msg
		return v, n
	}
	// ---- post-kill state, before anything is restarted
	for _, root := range []string{w.MetaDir(), w.ReplicaDir} {
		if v := verifyTree(root); v != nil {
			return fail(v)
		}
	}
	for _, out := range outs {
		b, err := os.ReadFile(out)
		if err != nil {
			continue // does not exist: fine
		}
		// must equal a full restore of some TXID of the replica
		match := false
		for _, f := range lsw.ListLTX(w.ReplicaDir) {
			alt := out + ".cmp"
			if err := lsw.RestoreTo(ctx, w.ReplicaDir, alt, f.Max, lsw.ZeroTime); err == nil {
				ab, _ := os.ReadFile(alt)
				os.Remove(alt)
				if bytes.Equal(ab, b) {
					match = true
					break
				}
			}
		}
		if !match {
			return fail(&core.Violation{Oracle: "partial-restore-output", Msg: fmt.Sprintf("restore output %s exists (%d bytes) but is not the complete restore of any TXID on the replica", filepath.Base(out), len(b))})
		}
	}
	var maxAcked c03Ack
	for _, a := range acks {
		if a.rtx >= maxAcked.rtx {
			maxAcked = a
		}
	}
	if maxAcked.rtx > 0 {
		out := filepath.Join(w.Dir, "postkill.db")
		if err := lsw.RestoreTo(ctx, w.ReplicaDir, out, 0, lsw.ZeroTime); err != nil {
			return fail(&core.Violation{Oracle: "acked-not-restorable", Msg: fmt.Sprintf("TXID %d was acknowledged before the kill but the replica cannot be restored: %v", maxAcked.rtx, err)})
		}
		v, d, ic, err := lsw.InspectFile(ctx, out)
		os.Remove(out)
		os.Remove(out + "-wal")
		os.Remove(out + "-shm")
		if err != nil || ic != "ok" {
			return fail(&core.Violation{Oracle: "acked-not-restorable", Msg: fmt.Sprintf("post-kill restore unusable: ic=%q err=%v", ic, err)})
		}
		if want, ok := w.Ledger[v]; !ok || want != d {
			return fail(&core.Violation{Oracle: "acked-not-restorable", Msg: fmt.Sprintf("post-kill restore has version %d/%s which is not a committed state", v, d)})
		}
		if v < maxAcked.v {
			return fail(&core.Violation{Oracle: "acked-lost", Msg: fmt.Sprintf("version %d was acknowledged as replicated (TXID %d) before the kill, the post-kill replica restores version %d", maxAcked.v, maxAcked.rtx, v)})
		}
		// the acknowledged TXID itself, when still addressable
		if err := lsw.RestoreTo(ctx, w.ReplicaDir, out, ltx.TXID(maxAcked.rtx), lsw.ZeroTime); err == nil {
			v2, d2, _, err := lsw.InspectFile(ctx, out)
			os.Remove(out)
			os.Remove(out + "-wal")
			os.Remove(out + "-shm")
			if err == nil && (v2 != maxAcked.v || w.Ledger[v2] != d2) {
				return fail(&core.Violation{Oracle: "acked-txid-changed", Msg: fmt.Sprintf("TXID %d was acknowledged holding version %d, it now restores version %d", maxAcked.rtx, maxAcked.v, v2)})
			}
		}
	}
	res.Evals++
	// ---- downtime: the application carries on while litestream is not running
	if len(c.Down) > 0 {
		salt0 := w.Obs.WALRestarts
		for _, o := range c.Down {
			w.AppStep(o)
		}
		res.Labels = append(res.Labels, "app-activity-during-downtime")
		if w.Obs.WALRestarts > salt0 {
			res.Labels = append(res.Labels, "wal-restarted-during-downtime")
		}
	}
	// ---- restart: no manual intervention, the first acknowledged sync restores exactly the source
	s2kill := 0
	if secondPM > 0 && n > 0 {
		s2kill = 1 + secondPM*n/20000
	}
	s2, err := startSession(w, s2kill > 0, s2kill, false)
	if err != nil {
		panic(fmt.Sprintf("harness: restart child: %v", err))
	}
	defer func() { s2.stop() }()
	restart := func(sess *procSession) (*core.Violation, bool) {
		r := sess.open()
		if r.Crashed {
			return nil, true
		}
		if !r.OK {
			return &core.Violation{Oracle: "restart-needs-repair", Msg: fmt.Sprintf("litestream cannot be started again after the kill: %s", r.Err)}, false
		}
		var last string
		for try := 0; try < 4; try++ {
			r = sess.proc.Do(map[string]any{"op": "syncwait"})
			if r.Crashed {
				return nil, true
			}
			if r.OK {
				if m := w.CheckR1(); m != nil {
					return &core.Violation{Oracle: "post-restart:" + m.Oracle, Msg: "first acknowledged sync after restart: " + m.Msg}, false
				}
				return nil, false
			}
			last = r.Err
			if !strings.Contains(r.Err, "locked") && !strings.Contains(r.Err, "BUSY") {
				break
			}
		}
		return &core.Violation{Oracle: "restart-needs-repair", Msg: fmt.Sprintf("replication does not resume after the kill: SyncAndWait keeps failing: %s", last)}, false
	}
	v, crashed := restart(s2)
	if v != nil {
		return fail(v)
	}
	if crashed {
		// the optional second kill hit: check the trees again and restart once more, untraced
		res.Labels = append(res.Labels, "second-kill")
		s2.stop()
		for _, root := range []string{w.MetaDir(), w.ReplicaDir} {
			if v := verifyTree(root); v != nil {
				v.Msg = "after second kill: " + v.Msg
				return fail(v)
			}
		}
		s3, err := startSession(w, false, 0, false)
		if err != nil {
			panic(err)
		}
		s2 = s3
		if v, crashed := restart(s3); v != nil {
			return fail(v)
		} else if crashed {
			return fail(&core.Violation{Oracle: "child-crashed", Msg: "untraced child died during restart"})
		}
	}
	res.Evals++
	// continue the remaining history
	for i := next + 1; i < len(c.Cmds); i++ {
		cmd := c.Cmds[i]
		if cmd.App != nil {
			w.AppStep(*cmd.App)
			continue
		}
		r, _ := s2.do(cmd)
		if os.Getenv("VERIF_TRACE") != "" {
			fmt.Printf("TRACE post-restart %-28s ok=%v err=%q dbtx=%d rtx=%d %s local=%v\n", cmd.String(), r.OK, r.Err, r.DBTX, r.RTX, w.TraceState(), listNames(w.MetaDir()))
		}
		if r.Crashed {
			if s2.sup != nil {
				if k, _ := s2.sup.Killed(); k {
					res.Labels = append(res.Labels, "second-kill-late")
					return nil, n
				}
			}
			return fail(&core.Violation{Oracle: "child-crashed", Msg: fmt.Sprintf("child died in %s after restart: %s", cmd, r.Stderr)})
		}
	}
	for try := 0; try < 4; try++ {
		r := s2.proc.Do(map[string]any{"op": "syncwait"})
		if r.Crashed {
			return nil, n
		}
		if r.OK {
			if m := w.CheckR1(); m != nil {
				return fail(&core.Violation{Oracle: "final:" + m.Oracle, Msg: "at the end of the continued history: " + m.Msg})
			}
			res.Evals++
			break
		}
	}
	return nil, n
}

func execC03(c c03Case) (res core.Result) {
	res.Key = core.HashJSON(c)
	killAt := c.KillAt
	if killAt == 0 {
		// dry run under the tracer to learn the number of mutating calls
		var dry core.Result
		v, n := runC03(c, 0, 0, &dry)
		if v != nil {
			res.Violation = v
			return res
		}
		if n == 0 {
			return res
		}
		killAt = 1 + c.KillPM*n/10000
		if killAt > n {
			killAt = n
		}
		res.Notes = map[string]int{"dry_run_calls": n}
	}
	v, _ := runC03(c, killAt, c.Second, &res)
	res.Violation = v
	return res
}

func TestProp_C03(t *testing.T) {
	core.Check(t, "C03", genC03, execC03)
}

// fixedC03Scenarios: one scenario per command class, for kill-point enumeration.
func fixedC03Scenarios() []c03Case {
	cfg := lsw.Config{PageSize: 1024, MinCkpt: 1000, Levels: 2, L0RetNS: 1}
	ins := func(n int) pCmd { return appCmd(lsw.Op{K: "insert", T: 0, N: n, S: 1}) }
	upd := appCmd(lsw.Op{K: "update", T: 0, A: 0, B: 100})
	base := []pCmd{ins(4), lsCmd("syncwait"), upd, lsCmd("syncwait"), ins(2)}
	mk := func(extra ...pCmd) c03Case {
		return c03Case{Cfg: cfg, Cmds: append(append([]pCmd(nil), base...), extra...)}
	}
	return []c03Case{
		mk(lsCmd("sync"), upd, lsCmd("syncwait")),                                                        // wal copy + upload
		mk(lsCmd("syncwait"), lsCmd("checkpoint", "mode", "TRUNCATE"), upd, lsCmd("syncwait")),          // checkpoint with boundary snapshot
		mk(lsCmd("syncwait"), lsCmd("checkpoint", "mode", "PASSIVE"), upd, lsCmd("syncwait")),           // passive checkpoint
		mk(lsCmd("syncwait"), lsCmd("compact", "level", 1), upd, lsCmd("syncwait"), lsCmd("compact", "level", 1), lsCmd("compact", "level", 2)), // compaction + L0 retention
		mk(lsCmd("syncwait"), lsCmd("snapshot"), upd, lsCmd("syncwait"), lsCmd("snapshot"), lsCmd("retain", "retention", "store", "ts", 4102444800000)), // snapshot + retention cascade
		mk(lsCmd("syncwait"), lsCmd("restore", "out", "RESTORE_OUT"), upd, lsCmd("syncwait")),           // restore to a path
	}
}

// TestEnum_C03 kills the fixed scenarios at every k (thorough) or at a sample of k (quick).
func TestEnum_C03(t *testing.T) {
	if os.Getenv("VERIF_ENUM") == "" {
		t.Skip("enumeration runs only when VERIF_ENUM is set")
	}
	core.Register("C03", execC03)
	defer core.FlushStats()
	shard, shards := core.EnvInt("VERIF_SHARD", 0), core.EnvInt("VERIF_SHARDS", 1)
	stride := core.EnvInt("VERIF_ENUM_STRIDE", 1)
	idx := 0
	for si, sc := range fixedC03Scenarios() {
		var dry core.Result
		v, n := runC03(sc, 0, 0, &dry)
		if v != nil {
			t.Fatalf("fixed scenario %d fails without any kill: %v", si, v)
		}
		for k := 1 + (si % stride); k <= n; k += stride {
			idx++
			if idx%shards != shard {
				continue
			}
			c := sc
			c.KillAt = k
			if !core.RunOne(t, "C03", c, execC03) {
				return
			}
		}
	}
}

func listNames(root string) []string {
	var a []string
	for _, f := range lsw.ListLTX(root) {
		a = append(a, fmt.Sprintf("L%d:%d-%d", f.Level, f.Min, f.Max))
	}
	return a
}
