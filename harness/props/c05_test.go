package props

// C05 — transient storage failures never leave gaps or false acknowledgements.

import (
	"context"
	"fmt"
	"os"
	"path/filepath"
	"sort"
	"testing"

	"github.com/benbjohnson/litestream"
	"pgregory.net/rapid"

	"verifharness/core"
	"verifharness/inject"
	"verifharness/lsw"
)

type c05Case struct {
	lsw.Case
	Plan []inject.Fault `json:"plan"`
	Only string         `json:"only,omitempty"` // restrict the plan to one kind of client call
}

func genC05(t *rapid.T) c05Case {
	c := c05Case{Case: genRepHist(t, core.Thorough(), true, false)}
	c.Cfg.ShutdownMS = rapid.SampledFrom([]int{0, 20}).Draw(t, "shutdownMS")
	density := rapid.SampledFrom([]int{5, 15, 25, 40}).Draw(t, "density")
	n := rapid.IntRange(8, 40).Draw(t, "planLen")
	for i := 0; i < n; i++ {
		f := inject.Fault{}
		if rapid.IntRange(0, 99).Draw(t, "faulty") < density {
			// reader faults are rare: every injected retry costs the code's own 250ms+ back-off
			f.Code = rapid.SampledFrom([]int{inject.FailBefore, inject.FailBefore, inject.FailAfter, inject.FailAfter, inject.FailAfter, inject.PartialUpload, inject.PartialUpload, inject.IterErrorAt, inject.ReadErrorAt}).Draw(t, "code")
			f.Arg = rapid.IntRange(0, 3000).Draw(t, "arg")
		}
		c.Plan = append(c.Plan, f)
	}
	// a third of the cases end with a compaction ladder (several level-1 files, then level 2 and 3 built from files
	// read back from the replica) with the plan concentrated on one kind of client call
	if rapid.IntRange(0, 2).Draw(t, "ladder") == 0 {
		if c.Cfg.Levels < 2 {
			c.Cfg.Levels = rapid.IntRange(2, 3).Draw(t, "ladderLevels")
		}
		c.Only = rapid.SampledFrom([]string{"open", "open", "write", "list", ""}).Draw(t, "only")
		rounds := rapid.IntRange(2, 3).Draw(t, "ladderRounds")
		for l2 := 0; l2 < rapid.IntRange(1, 2).Draw(t, "ladderL2"); l2++ {
			for r := 0; r < rounds; r++ {
				c.Ops = append(c.Ops, lsw.Op{K: "insert", T: 0, N: rapid.SampledFrom([]int{1, 5, 12}).Draw(t, "n"), S: 1}, lsw.Op{K: "syncwait"}, lsw.Op{K: "compact", L: 1})
			}
			c.Ops = append(c.Ops, lsw.Op{K: "compact", L: 2})
		}
		if c.Cfg.Levels >= 3 {
			c.Ops = append(c.Ops, lsw.Op{K: "compact", L: 3})
		}
		c.Ops = append(c.Ops, lsw.Op{K: "syncwait"})
	}
	// the history ends with a Close half of the time (its final sync + retry loop under faults)
	if rapid.Bool().Draw(t, "endClose") {
		c.Ops = append(c.Ops, lsw.Op{K: "close"})
	}
	return c
}

func l0Contiguous(replicaDir string) (bool, string) {
	var tx []int
	for _, f := range lsw.ListLTX(replicaDir) {
		if f.Level == 0 {
			tx = append(tx, int(f.Max))
			if f.Min != f.Max {
				return false, fmt.Sprintf("level-0 file %d-%d spans several TXIDs", f.Min, f.Max)
			}
		}
	}
	sort.Ints(tx)
	for i := 1; i < len(tx); i++ {
		if tx[i] != tx[i-1]+1 {
			return false, fmt.Sprintf("level-0 TXIDs on the replica jump from %d to %d", tx[i-1], tx[i])
		}
	}
	return true, ""
}

func execC05(c c05Case) (res core.Result) {
	w, err := lsw.NewWorld(c.Cfg, core.WorkDir("c05"))
	if err != nil {
		panic(fmt.Sprintf("harness: new world: %v", err))
	}
	defer w.Cleanup()
	var fc *inject.FaultClient
	var gap string
	w.WrapClient = func(inner litestream.ReplicaClient) litestream.ReplicaClient {
		fc = &inject.FaultClient{Inner: inner, Plan: c.Plan, Enabled: true, Only: c.Only}
		fc.AfterCall = func(call inject.Call) {
			if gap != "" {
				return
			}
			if ok, msg := l0Contiguous(w.ReplicaDir); !ok {
				gap = fmt.Sprintf("after client call %s L%d %d-%d (fault %+v): %s", call.Op, call.Level, call.Min, call.Max, call.Fault, msg)
			}
		}
		return fc
	}
	if err := w.Attach(); err != nil {
		panic(fmt.Sprintf("harness: attach: %v", err))
	}
	ctx := context.Background()
	res.Key = core.HashStrings(c.Abstract(), core.HashJSON(c.Plan), c.Only)
	ambiguousThenAck := false
	sawAmbiguous := false
	defer func() {
		c01Labels(w, &res)
		if fc != nil {
			for k, v := range fc.Counts {
				res.Labels = append(res.Labels, "fault:"+k)
				if res.Notes == nil {
					res.Notes = map[string]int{}
				}
				res.Notes["fault:"+k] += v
			}
		}
		if ambiguousThenAck {
			res.Labels = append(res.Labels, "ambiguous-upload-then-ack")
		}
		res.NonTrivial = ambiguousThenAck
	}()
	fail := func(i int, o lsw.Op, oracle, format string, a ...any) core.Result {
		res.Violation = &core.Violation{Oracle: oracle, Msg: fmt.Sprintf("after step %d (%s): ", i, o) + fmt.Sprintf(format, a...)}
		return res
	}
	mid := map[int]bool{len(c.Ops) / 4: true, len(c.Ops) / 2: true, 3 * len(c.Ops) / 4: true}
	closed := false
	initialised := false // has a call that initialises the DB object (Sync, SyncAndWait, Checkpoint) returned nil?
	for i, o := range c.Ops {
		switch {
		case o.K == "age":
			ageFiles(w.ReplicaDir, o.N, o.A)
			continue
		case o.K == "rettxid":
			continue // needs the caller's precondition; covered by C07
		case isRetentionOp(o.K):
			if !closed {
				_ = runRetention(w, o)
			}
		case lsw.IsLSOp(o.K):
			if closed {
				continue
			}
			sr := w.LSStep(o)
			if o.K == "close" {
				closed = true
			}
			closeBeforeInit := o.K == "close" && !initialised
			if (o.K == "sync" || o.K == "syncwait" || o.K == "lsckpt") && sr.Err == nil {
				initialised = true
			}
			if fc.Counts["write:fail-after-effect"]+fc.Counts["write:partial-upload"] > 0 {
				sawAmbiguous = true
			}
			if sr.Acked {
				res.Evals++
				if sawAmbiguous {
					ambiguousThenAck = true
				}
				// acknowledged => stored: the replica's highest level-0 TXID is the database position, and R1 holds
				if w.DB != nil {
					if pos, err := w.DB.Pos(); err == nil && pos.TXID != lsw.MaxL0(w.ReplicaDir) {
						return fail(i, o, "false-ack", "acknowledged but database position is %d and the highest stored level-0 TXID is %d", pos.TXID, lsw.MaxL0(w.ReplicaDir))
					}
				}
				if !w.AnyTx() {
					if m := w.CheckR1(); m != nil {
						r := fail(i, o, "false-ack:"+m.Oracle, "acknowledged under faults but %s", m.Msg)
						if closeBeforeInit {
							// same root cause as C01's finding: Close on a DB object that never got initialised returns nil
							r.Violation.Shapes = append(r.Violation.Shapes, "close-before-init")
						}
						return r
					}
				}
			}
		default:
			w.AppStep(o)
		}
		if gap != "" {
			return fail(i, o, "l0-gap", "%s", gap)
		}
		if mid[i] && lsw.MaxL0(w.ReplicaDir) > 0 {
			// the replica stays restorable to a consistent (possibly old) state throughout
			out := filepath.Join(w.Dir, fmt.Sprintf("c05-mid-%d.db", i))
			if err := lsw.RestoreTo(ctx, w.ReplicaDir, out, 0, lsw.ZeroTime); err != nil {
				return fail(i, o, "not-restorable", "replica cannot be restored mid-history: %v", err)
			}
			v, d, ic, err := lsw.InspectFile(ctx, out)
			os.Remove(out)
			os.Remove(out + "-wal")
			os.Remove(out + "-shm")
			res.Evals++
			if err != nil || ic != "ok" {
				return fail(i, o, "restored-unusable", "mid-history restore unusable: ic=%q err=%v", ic, err)
			}
			if want, ok := w.Ledger[v]; !ok || want != d {
				return fail(i, o, "restored-inconsistent", "mid-history restore has version %d/%s which is not a committed state", v, d)
			}
		}
	}
	// fault-free suffix: the replica catches up and restore equals the source
	fc.Enabled = false
	if closed {
		if err := w.Attach(); err != nil {
			return fail(len(c.Ops), lsw.Op{K: "attach"}, "restart-failed", "cannot start again after faults: %v", err)
		}
		fc.Enabled = false
	}
	for k := 0; k < 3; k++ {
		for _, o := range []lsw.Op{{K: "endread", C: 0}, {K: "endread", C: 1}, {K: "endread", C: 2}} {
			w.AppStep(o)
		}
		w.AppStep(lsw.Op{K: "insert", T: 0, N: 1, S: 0})
		sr := w.LSStep(lsw.Op{K: "syncwait"})
		if sr.Err != nil && k == 2 {
			return fail(len(c.Ops)+k, lsw.Op{K: "syncwait"}, "no-catch-up", "faults stopped, yet the third fault-free SyncAndWait still fails: %v", sr.Err)
		}
		if gap != "" {
			return fail(len(c.Ops)+k, lsw.Op{K: "syncwait"}, "l0-gap", "%s", gap)
		}
		if sr.Acked && !w.AnyTx() {
			res.Evals++
			if m := w.CheckR1(); m != nil {
				return fail(len(c.Ops)+k, lsw.Op{K: "syncwait"}, "catch-up:"+m.Oracle, "after the faults stopped: %s", m.Msg)
			}
		}
	}
	return res
}

func TestProp_C05(t *testing.T) {
	core.Check(t, "C05", genC05, execC05)
}
