package props

// C12 — concurrent daemon operations are race-free, deadlock-free and keep C01/C02.
//
// A Store with its real monitors running at millisecond intervals, G goroutines
// executing generated programs over the daemon's operations, and application
// writer goroutines. Built with -race. Schedules are whatever the Go scheduler
// produces (not owned by the harness): this is a stress check with sound oracles.

import (
	"context"
	"database/sql"
	"errors"
	"fmt"
	"os"
	"path/filepath"
	"runtime"
	"sort"
	"strings"
	"sync"
	"sync/atomic"
	"testing"
	"time"

	"github.com/benbjohnson/litestream"
	"github.com/benbjohnson/litestream/file"
	"github.com/superfly/ltx"
	"pgregory.net/rapid"

	"verifharness/core"
	"verifharness/lsw"
)

type c12Case struct {
	PageSize int        `json:"ps"`
	MinCkpt  int        `json:"minck"`
	Levels   int        `json:"levels"`
	Progs    [][]string `json:"progs"`   // per goroutine: list of op names
	Writers  int        `json:"writers"` // application writer goroutines
	Txns     int        `json:"txns"`    // transactions per writer
	Procs    int        `json:"procs"`   // GOMAXPROCS
}

// Operations any goroutine may issue at any time (the daemon's request paths and status queries).
var c12Common = []string{"syncdb-wait", "syncdb-wait", "syncdb-wait", "sync", "sync", "sync", "rsync", "rsync", "rsync", "ckpt-passive", "ckpt-passive", "ckpt-passive",
	"ckpt-full", "ckpt-full", "ckpt-restart", "ckpt-restart", "ckpt-truncate", "ckpt-truncate", "status", "status", "status", "diag", "diag", "crc64", "crc64",
	"enable", "enable", "disable", "disable", "register", "unregister", "disable-deadline", "disable-cancelled"}

// Per-level work is driven by exactly one goroutine per level, as in the daemon (one monitor per compaction level,
// one for snapshots + snapshot retention, one for level-0 retention). The store's own level monitors are switched off
// and these goroutines play their part, so the interleavings with everything else are still arbitrary.
var c12Dedicated = [][]string{
	{"snapshot", "compact-snap", "ret-snap"},
	{"compact1", "ret-l0"},
	{"compact2"},
}

func genC12(t *rapid.T) c12Case {
	c := c12Case{
		PageSize: rapid.SampledFrom([]int{512, 1024, 4096}).Draw(t, "ps"),
		MinCkpt:  rapid.SampledFrom([]int{2, 5, 20, 1000}).Draw(t, "minck"),
		Levels:   2,
		Writers:  rapid.IntRange(1, 2).Draw(t, "writers"),
		Txns:     rapid.IntRange(10, 40).Draw(t, "txns"),
		Procs:    rapid.SampledFrom([]int{2, 4, 16}).Draw(t, "procs"),
	}
	g := rapid.IntRange(3, 6).Draw(t, "goroutines")
	for i := 0; i < g; i++ {
		n := rapid.IntRange(8, 30).Draw(t, "nops")
		var p []string
		ops := c12Common
		if i < len(c12Dedicated) {
			ops = append(append(append([]string(nil), c12Common...), c12Dedicated[i]...), c12Dedicated[i]...)
		}
		for j := 0; j < n; j++ {
			p = append(p, rapid.SampledFrom(ops).Draw(t, "op"))
		}
		c.Progs = append(c.Progs, p)
	}
	return c
}

type c12Env struct {
	dir, dbPath, replicaDir string
	store                   *litestream.Store
	levels                  litestream.CompactionLevels
	ledgerMu                sync.Mutex
	ledger                  map[int64]string
	opKinds                 sync.Map
}

func (e *c12Env) newDB() *litestream.DB {
	db := litestream.NewDB(e.dbPath)
	db.MonitorInterval = 2 * time.Millisecond
	db.BusyTimeout = 20 * time.Millisecond
	db.CheckpointInterval = time.Minute
	fc := file.NewReplicaClient(e.replicaDir)
	r := litestream.NewReplicaWithClient(db, fc)
	r.SyncInterval = 3 * time.Millisecond
	r.MonitorEnabled = true
	fc.Replica = r
	db.Replica = r
	db.ShutdownSyncTimeout = time.Second
	db.ShutdownSyncInterval = 10 * time.Millisecond
	return db
}

func c12DumpGoroutines() string {
	buf := make([]byte, 4<<20)
	n := runtime.Stack(buf, true)
	// keep only goroutines that are inside litestream code
	var keep []string
	for _, g := range strings.Split(string(buf[:n]), "\n\n") {
		if strings.Contains(g, "benbjohnson/litestream.") {
			keep = append(keep, g)
		}
	}
	s := strings.Join(keep, "\n\n")
	if len(s) > 20000 {
		s = s[:20000] + "\n...(truncated)"
	}
	return s
}

func execC12(c c12Case) (res core.Result) {
	var shapeTwoInstances func() bool
	defer func() {
		if res.Violation != nil && shapeTwoInstances != nil && shapeTwoInstances() {
			switch {
			case strings.HasPrefix(res.Violation.Oracle, "r1-"), strings.HasPrefix(res.Violation.Oracle, "txid-"), res.Violation.Oracle == "final-sync-failed",
				res.Violation.Oracle == "leaked-handle", res.Violation.Oracle == "leaked-lock":
				// shape: an unregister request ran concurrently with a register / enable / disable request for the same
				// path. The store removes the DB from its list before closing it and does not serialize these requests,
				// so a second instance may replicate the same database while the first is still closing, or the
				// unregistered instance is opened again and never closed.
				res.Violation.Shapes = append(res.Violation.Shapes, "unregister-races-lifecycle")
				res.Violation.Msg = "[unregister overlapped another lifecycle request] " + res.Violation.Msg
			}
		}
	}()
	old := runtime.GOMAXPROCS(c.Procs)
	defer runtime.GOMAXPROCS(old)
	dir := core.WorkDir("c12")
	defer os.RemoveAll(dir)
	e := &c12Env{dir: dir, dbPath: filepath.Join(dir, "db"), replicaDir: filepath.Join(dir, "replica"), ledger: map[int64]string{}}
	ctx := context.Background()
	res.Key = core.HashJSON(c)
	// application database
	appDSN := fmt.Sprintf("file:%s?_pragma=busy_timeout(2000)&_pragma=wal_autocheckpoint(0)&_txlock=immediate", e.dbPath)
	app, err := sql.Open("sqlite", appDSN)
	if err != nil {
		panic(err)
	}
	app.SetMaxOpenConns(4)
	for _, q := range []string{fmt.Sprintf(`PRAGMA page_size=%d`, c.PageSize), `PRAGMA journal_mode=WAL`, `CREATE TABLE _v (v INTEGER)`, `INSERT INTO _v VALUES (0)`,
		`CREATE TABLE t0 (id INTEGER PRIMARY KEY, k INTEGER, v BLOB)`} {
		if _, err := app.Exec(q); err != nil {
			panic(fmt.Sprintf("harness: %s: %v", q, err))
		}
	}
	if v, d, err := lsw.Digest(ctx, app); err == nil {
		e.ledger[v] = d
	}
	// store with live monitors
	e.levels = litestream.CompactionLevels{{Level: 0}, {Level: 1, Interval: 5 * time.Millisecond}, {Level: 2, Interval: 20 * time.Millisecond}}
	db := e.newDB()
	db.MinCheckpointPageN = c.MinCkpt
	var allMu sync.Mutex
	allDBs := []*litestream.DB{db}
	st := litestream.NewStore([]*litestream.DB{db}, e.levels)
	st.CompactionMonitorEnabled = false // played by the dedicated harness goroutines, see c12Dedicated
	st.SnapshotInterval = 25 * time.Millisecond
	st.SnapshotRetention = 60 * time.Millisecond
	st.L0Retention = time.Millisecond
	db.L0Retention = time.Millisecond
	st.L0RetentionCheckInterval = 0
	st.HeartbeatCheckInterval = 0
	st.ShutdownSyncTimeout = time.Second
	st.ShutdownSyncInterval = 10 * time.Millisecond
	db.ShutdownSyncTimeout = time.Second
	db.ShutdownSyncInterval = 10 * time.Millisecond
	e.store = st
	if err := st.Open(ctx); err != nil {
		panic(fmt.Sprintf("harness: store open: %v", err))
	}

	// harness-side observation for shape attribution: execution intervals of register / unregister requests
	type ival struct{ a, b time.Time }
	var ivMu sync.Mutex
	var regIv, unregIv []ival
	note := func(dst *[]ival, a time.Time) {
		ivMu.Lock()
		*dst = append(*dst, ival{a, time.Now()})
		ivMu.Unlock()
	}
	regOverlapsUnreg := func() bool {
		ivMu.Lock()
		defer ivMu.Unlock()
		for _, r := range regIv {
			for _, u := range unregIv {
				if r.a.Before(u.b) && u.a.Before(r.b) {
					return true
				}
			}
		}
		return false
	}
	shapeTwoInstances = regOverlapsUnreg
	var violation atomic.Pointer[core.Violation]
	setV := func(v *core.Violation) { violation.CompareAndSwap(nil, v) }
	var overlap atomic.Int64
	var running atomic.Int64
	var kindsRunning sync.Map

	// diagnostic event log (relative ms, op, error); only ever printed as part of a violation message
	t00 := time.Now()
	var evMu sync.Mutex
	var evLog []string
	logEv := func(f string, a ...any) {
		evMu.Lock()
		if len(evLog) < 4000 {
			evLog = append(evLog, fmt.Sprintf("%.1fms ", float64(time.Since(t00).Microseconds())/1000)+fmt.Sprintf(f, a...))
		}
		evMu.Unlock()
	}
	diag := func() string {
		evMu.Lock()
		defer evMu.Unlock()
		var b strings.Builder
		b.WriteString("\nreplica files:")
		for _, f := range lsw.ListLTX(e.replicaDir) {
			fmt.Fprintf(&b, " L%d:%d-%d(%dB@%.0fms)", f.Level, f.Min, f.Max, f.Size, float64(f.Mod.Sub(t00).Microseconds())/1000)
		}
		b.WriteString("\nevents:\n")
		b.WriteString(strings.Join(evLog, "\n"))
		return b.String()
	}
	defer func() {
		if res.Violation != nil && (strings.HasPrefix(res.Violation.Oracle, "r1-") || strings.HasPrefix(res.Violation.Oracle, "txid-")) {
			res.Violation.Msg += diag()
		}
	}()
	var lifeGate sync.RWMutex
	var deadlineCloses, deadlineCloseErrs atomic.Int64
	// watchdog-wrapped op
	runOp := func(name string, fn func(context.Context) error) {
		done := make(chan struct{})
		octx, cancel := context.WithTimeout(ctx, 20*time.Second)
		go func() {
			defer close(done)
			defer cancel()
			if running.Add(1) > 1 {
				// classification only: some other operation kind is in flight right now
				other := false
				kindsRunning.Range(func(k, _ any) bool {
					if k.(string) != name {
						other = true
					}
					return !other
				})
				if other {
					overlap.Add(1)
				}
			}
			kindsRunning.Store(name, true)
			logEv("begin %s", name)
			t0 := time.Now()
			err := fn(octx)
			logEv("end %s err=%v", name, err)
			if err != nil && errors.Is(err, context.DeadlineExceeded) && time.Since(t0) >= 19*time.Second {
				// the operation used up its whole 20 s budget waiting: no step of any operation takes seconds here (busy
				// timeouts are 20 ms, shutdown retries 1 s), so something it queued on is never released
				setV(&core.Violation{Oracle: "operation-starved", Msg: fmt.Sprintf("operation %s waited 20s and gave up (%v): a lock or semaphore it queued on is never released\n%s", name, err, c12DumpGoroutines())})
			}
			kindsRunning.Delete(name)
			running.Add(-1)
		}()
		select {
		case <-done:
		case <-time.After(45 * time.Second):
			setV(&core.Violation{Oracle: "operation-hung", Msg: fmt.Sprintf("operation %s did not return within 45s (its context expired after 20s): deadlock or leaked lock\n%s", name, c12DumpGoroutines())})
		}
	}
	// like every caller in the daemon (Store.SyncDB, the monitors, the control server) operations are only issued
	// on a database that is registered and open at the time of the call
	cur := func() *litestream.DB {
		d := st.FindDB(e.dbPath)
		if d == nil || !d.IsOpen() {
			return nil
		}
		return d
	}
	doOp := func(name string) {
		switch name {
		case "syncdb-wait":
			runOp(name, func(ctx context.Context) error { _, err := st.SyncDB(ctx, e.dbPath, true); return err })
		case "sync":
			if d := cur(); d != nil {
				runOp(name, d.Sync)
			}
		case "rsync":
			if d := cur(); d != nil {
				runOp(name, d.Replica.Sync)
			}
		case "ckpt-passive", "ckpt-full", "ckpt-restart", "ckpt-truncate":
			if d := cur(); d != nil {
				mode := strings.ToUpper(strings.TrimPrefix(name, "ckpt-"))
				runOp(name, func(ctx context.Context) error { return d.Checkpoint(ctx, mode) })
			}
		case "snapshot":
			if d := cur(); d != nil {
				runOp(name, func(ctx context.Context) error { _, err := d.Snapshot(ctx); return err })
			}
		case "compact1", "compact2":
			if d := cur(); d != nil {
				lvl := e.levels[1]
				if name == "compact2" {
					lvl = e.levels[2]
				}
				runOp(name, func(ctx context.Context) error { _, err := st.CompactDB(ctx, d, lvl); return err })
			}
		case "compact-snap":
			if d := cur(); d != nil {
				runOp(name, func(ctx context.Context) error { _, err := st.CompactDB(ctx, d, st.SnapshotLevel()); return err })
			}
		case "ret-snap":
			if d := cur(); d != nil {
				runOp(name, func(ctx context.Context) error { return st.EnforceSnapshotRetention(ctx, d) })
			}
		case "ret-l0":
			if d := cur(); d != nil {
				runOp(name, d.EnforceL0RetentionByTime)
			}
		case "status":
			if d := cur(); d != nil {
				runOp(name, func(ctx context.Context) error { _, err := d.SyncStatus(ctx); return err })
			}
		case "diag":
			if d := cur(); d != nil {
				runOp(name, func(ctx context.Context) error { _ = d.SyncDiagnostic(); return nil })
			}
		case "crc64":
			if d := cur(); d != nil {
				runOp(name, func(ctx context.Context) error { _, _, err := d.CRC64(ctx); return err })
			}
		case "register":
			lifeGate.RLock()
			defer lifeGate.RUnlock()
			nd := e.newDB()
			nd.MinCheckpointPageN = c.MinCkpt
			allMu.Lock()
			allDBs = append(allDBs, nd)
			allMu.Unlock()
			t0 := time.Now()
			runOp(name, func(ctx context.Context) error { return st.RegisterDB(nd) })
			note(&regIv, t0)
			n := 0
			for _, d := range st.DBs() {
				if d.Path() == e.dbPath {
					n++
				}
			}
			if n > 1 {
				setV(&core.Violation{Oracle: "duplicate-registration", Msg: fmt.Sprintf("store manages %d instances of %s", n, e.dbPath)})
			}
		case "unregister":
			lifeGate.RLock()
			defer lifeGate.RUnlock()
			t0 := time.Now()
			runOp(name, func(ctx context.Context) error { return st.UnregisterDB(ctx, e.dbPath) })
			note(&unregIv, t0)
		case "enable":
			lifeGate.RLock()
			defer lifeGate.RUnlock()
			t0 := time.Now()
			runOp(name, func(ctx context.Context) error { return st.EnableDB(ctx, e.dbPath) })
			note(&regIv, t0)
		case "disable":
			lifeGate.RLock()
			defer lifeGate.RUnlock()
			t0 := time.Now()
			runOp(name, func(ctx context.Context) error { return st.DisableDB(ctx, e.dbPath) })
			note(&regIv, t0)
		case "disable-deadline", "disable-cancelled":
			// A stop request whose caller gives up (deadline a few ms away, or already cancelled) while other operations keep
			// the database busy. No other lifecycle request (enable / disable / register / unregister) runs during it - the
			// harness gate below - so the state of the instance right after the call is the call's own doing: "closing always
			// completes" means the instance is closed whatever the call returned.
			lifeGate.Lock()
			defer lifeGate.Unlock()
			d := cur()
			if d == nil {
				return
			}
			t0 := time.Now()
			var callErr error
			runOp(name, func(ctx context.Context) error {
				cctx, cancel := context.WithTimeout(ctx, 3*time.Millisecond)
				if name == "disable-cancelled" {
					cancel()
				}
				defer cancel()
				callErr = d.Close(cctx)
				return callErr
			})
			note(&regIv, t0)
			deadlineCloses.Add(1)
			if callErr != nil {
				deadlineCloseErrs.Add(1)
			}
			if d.IsOpen() {
				setV(&core.Violation{Oracle: "close-incomplete", Msg: fmt.Sprintf("DB.Close with an expiring/cancelled caller context returned %v and left the database open (read lock and handles held, monitors stopped)", callErr)})
			}
		}
	}

	var wg sync.WaitGroup
	// application writers: multi-statement transactions with rollbacks; the digest is taken inside the transaction
	var ctr atomic.Int64
	for wi := 0; wi < c.Writers; wi++ {
		wg.Add(1)
		go func(wi int) {
			defer wg.Done()
			for i := 0; i < c.Txns && violation.Load() == nil; i++ {
				conn, err := app.Conn(ctx)
				if err != nil {
					continue
				}
				func() {
					defer conn.Close()
					if _, err := conn.ExecContext(ctx, `BEGIN IMMEDIATE`); err != nil {
						return
					}
					ok := true
					for s := 0; s < 1+(i+wi)%3; s++ {
						n := ctr.Add(1)
						var err error
						switch (int(n) + s) % 3 {
						case 0:
							_, err = conn.ExecContext(ctx, `INSERT INTO t0(k,v) VALUES(?,?)`, n, make([]byte, 50+int(n%7)*c.PageSize/3))
						case 1:
							_, err = conn.ExecContext(ctx, `UPDATE t0 SET k=k+1 WHERE id % 3 = ?`, n%3)
						default:
							_, err = conn.ExecContext(ctx, `DELETE FROM t0 WHERE id % 11 = ?`, n%11)
						}
						if err != nil {
							ok = false
							break
						}
						runtime.Gosched()
					}
					if !ok || (i+wi)%5 == 4 {
						_, _ = conn.ExecContext(ctx, `ROLLBACK`)
						return
					}
					if _, err := conn.ExecContext(ctx, `UPDATE _v SET v=v+1`); err != nil {
						_, _ = conn.ExecContext(ctx, `ROLLBACK`)
						return
					}
					v, d, err := digestConn(ctx, conn)
					if err != nil {
						_, _ = conn.ExecContext(ctx, `ROLLBACK`)
						return
					}
					if _, err := conn.ExecContext(ctx, `COMMIT`); err != nil {
						_, _ = conn.ExecContext(ctx, `ROLLBACK`)
						return
					}
					e.ledgerMu.Lock()
					e.ledger[v] = d
					e.ledgerMu.Unlock()
				}()
			}
		}(wi)
	}
	for _, prog := range c.Progs {
		wg.Add(1)
		go func(prog []string) {
			defer wg.Done()
			for _, op := range prog {
				if violation.Load() != nil {
					return
				}
				doOp(op)
			}
		}(prog)
	}
	wg.Wait()
	if v := violation.Load(); v != nil {
		res.Violation = v
		_ = st.Close(ctx)
		app.Close()
		return res
	}
	if deadlineCloses.Load() > 0 {
		res.Labels = append(res.Labels, "close-with-expiring-context")
	}
	if deadlineCloseErrs.Load() > 0 {
		res.Labels = append(res.Labels, "close-with-expiring-context-returned-error")
	}
	if overlap.Load() > 0 {
		res.Labels = append(res.Labels, "ops-overlapped")
		res.NonTrivial = true
	}
	// closing always completes
	closed := make(chan error, 1)
	go func() { closed <- st.Close(ctx) }()
	select {
	case <-closed:
	case <-time.After(90 * time.Second):
		res.Violation = &core.Violation{Oracle: "close-hung", Msg: "Store.Close did not return within 90s\n" + c12DumpGoroutines()}
		return res
	}
	// also close a DB object that was unregistered/never re-registered? Nothing to do: UnregisterDB closes it.
	res.Evals++
	// the source is free of litestream's read lock: an exclusive transaction and a full TRUNCATE checkpoint succeed
	probe, err := sql.Open("sqlite", fmt.Sprintf("file:%s?_pragma=busy_timeout(200)", e.dbPath))
	if err == nil {
		var a, b, d int
		err = probe.QueryRowContext(ctx, `PRAGMA wal_checkpoint(TRUNCATE)`).Scan(&a, &b, &d)
		if err != nil || a != 0 {
			probe.Close()
			res.Violation = &core.Violation{Oracle: "leaked-lock", Msg: fmt.Sprintf("after Close an external TRUNCATE checkpoint is blocked (busy=%d err=%v): litestream left a lock on the source", a, err)}
			return res
		}
		if _, err := probe.ExecContext(ctx, `BEGIN EXCLUSIVE; COMMIT`); err != nil {
			probe.Close()
			res.Violation = &core.Violation{Oracle: "leaked-lock", Msg: fmt.Sprintf("after Close an exclusive transaction fails: %v", err)}
			return res
		}
		probe.Close()
	}
	app.Close()
	// no descriptor of this process still points at the database files
	if ents, err := os.ReadDir("/proc/self/fd"); err == nil {
		for _, en := range ents {
			if tgt, err := os.Readlink(filepath.Join("/proc/self/fd", en.Name())); err == nil && (tgt == e.dbPath || tgt == e.dbPath+"-wal" || tgt == e.dbPath+"-shm") {
				detail := ""
				inStore := map[*litestream.DB]bool{}
				for _, d := range st.DBs() {
					inStore[d] = true
				}
				for i, d := range allDBs {
					if d.SQLDB() != nil {
						detail += fmt.Sprintf(" [DB object #%d still has its SQL handle: isOpen=%v managedByStore=%v]", i, d.IsOpen(), inStore[d])
					}
				}
				res.Violation = &core.Violation{Oracle: "leaked-handle", Msg: fmt.Sprintf("after Close (and after the harness closed its own connections) descriptor %s still refers to %s%s", en.Name(), tgt, detail)}
				return res
			}
		}
	}
	// quiesced: one more acknowledged sync with a fresh DB object, then the C01 / C02 oracles
	cfg := lsw.Config{PageSize: c.PageSize, MinCkpt: 1000, Levels: 2}
	fdb := litestream.NewDB(e.dbPath)
	fdb.MonitorInterval = 0
	fc := file.NewReplicaClient(e.replicaDir)
	fr := litestream.NewReplicaWithClient(fdb, fc)
	fr.MonitorEnabled = false
	fc.Replica = fr
	fdb.Replica = fr
	if err := fdb.Open(); err != nil {
		res.Violation = &core.Violation{Oracle: "reopen-failed", Msg: err.Error()}
		return res
	}
	if err := fdb.SyncAndWait(ctx); err != nil {
		_ = fdb.Close(ctx)
		res.Violation = &core.Violation{Oracle: "final-sync-failed", Msg: fmt.Sprintf("after quiescing, SyncAndWait on a fresh DB object fails: %v", err)}
		return res
	}
	if err := fdb.Close(ctx); err != nil {
		res.Violation = &core.Violation{Oracle: "final-close-failed", Msg: err.Error()}
		return res
	}
	// reference: the source is completely closed now, plain file copies are safe
	refDir := filepath.Join(dir, "ref")
	_ = os.MkdirAll(refDir, 0o755)
	for _, suf := range []string{"", "-wal"} {
		if b, err := os.ReadFile(e.dbPath + suf); err == nil {
			_ = os.WriteFile(filepath.Join(refDir, "ref.db"+suf), b, 0o644)
		}
	}
	ref, err := lsw.CheckpointCopy(ctx, filepath.Join(refDir, "ref.db"), cfg.PageSize)
	if err != nil {
		panic(fmt.Sprintf("harness: reference: %v", err))
	}
	out := filepath.Join(dir, "final.db")
	if err := lsw.RestoreTo(ctx, e.replicaDir, out, 0, lsw.ZeroTime); err != nil {
		res.Violation = &core.Violation{Oracle: "r1-restore-error", Msg: fmt.Sprintf("after quiescing and an acknowledged sync the replica cannot be restored: %v", err)}
		return res
	}
	res.Evals++
	if m := lsw.CompareRestored(ctx, ref, out); m != nil {
		res.Violation = &core.Violation{Oracle: m.Oracle, Msg: "after quiescing: " + m.Msg}
		return res
	}
	// every TXID that can be restored is a committed state, monotone in TXID; snapshots match their position
	ends := map[ltx.TXID]bool{}
	for _, f := range lsw.ListLTX(e.replicaDir) {
		ends[f.Max] = true
	}
	var ids []ltx.TXID
	for n := range ends {
		ids = append(ids, n)
	}
	sort.Slice(ids, func(i, j int) bool { return ids[i] < ids[j] })
	lastV := int64(-1)
	for _, n := range ids {
		o := filepath.Join(dir, fmt.Sprintf("tx%d.db", n))
		if err := lsw.RestoreTo(ctx, e.replicaDir, o, n, lsw.ZeroTime); err != nil {
			continue // not addressable after retention
		}
		v, d, ic, err := lsw.InspectFile(ctx, o)
		os.Remove(o)
		os.Remove(o + "-wal")
		os.Remove(o + "-shm")
		res.Evals++
		if err != nil || ic != "ok" {
			res.Violation = &core.Violation{Oracle: "txid-unusable", Msg: fmt.Sprintf("restore of TXID %d unusable: ic=%q err=%v", n, ic, err)}
			return res
		}
		if want, ok := e.ledger[v]; !ok || want != d {
			res.Violation = &core.Violation{Oracle: "txid-not-a-commit", Msg: fmt.Sprintf("restore of TXID %d has version %d/%s which is not a committed state (ledger: %q)", n, v, d, want)}
			return res
		}
		if v < lastV {
			res.Violation = &core.Violation{Oracle: "txid-monotone", Msg: fmt.Sprintf("TXID %d restores version %d after an earlier TXID restored %d", n, v, lastV)}
			return res
		}
		lastV = v
	}
	return res
}

func digestConn(ctx context.Context, conn *sql.Conn) (int64, string, error) {
	return lsw.DigestOn(ctx, conn)
}

func TestProp_C12(t *testing.T) {
	core.Check(t, "C12", genC12, execC12)
}
