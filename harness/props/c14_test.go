package props

// C14 — litestream never alters the application's data in the source database.
//
// The same deterministic application history is executed twice in lockstep:
// on database A with litestream attached and a generated schedule of
// litestream operations between the statements, and on control database B
// with no litestream at all.

import (
	"context"
	"database/sql"
	"fmt"
	"github.com/superfly/ltx"
	"os"
	"path/filepath"
	"sort"
	"strings"
	"testing"

	"pgregory.net/rapid"

	"verifharness/core"
	"verifharness/lsw"
)

func genC14(t *rapid.T) lsw.Case {
	cfg := lsw.GenConfig(t, core.Thorough())
	n := rapid.IntRange(8, 36).Draw(t, "steps")
	m := lsw.NewGenModel(cfg)
	ops := []lsw.Op{{K: "sync"}}
	for i := 0; i < n; i++ {
		if rapid.IntRange(0, 9).Draw(t, "which") < 6 {
			ops = append(ops, m.AppOp(t))
		} else {
			k := rapid.SampledFrom([]string{"sync", "sync", "syncwait", "lsckpt", "lsckpt", "lsckpt", "snapshot", "compact", "reattach", "coldrestart"}).Draw(t, "lsop")
			// one in ten syncs / checkpoints runs while the local staging of the next LTX files fails (a directory sits
			// where the staging file has to be created): litestream reports an error, the source must be left as it was
			blocked := 0
			if (k == "sync" || k == "syncwait" || k == "lsckpt") && rapid.IntRange(0, 9).Draw(t, "stagingFails") == 0 {
				blocked = 1
			}
			switch k {
			case "coldrestart":
				// everything stops (the last application connection to close deletes the WAL), then starts again
				ops = append(ops, lsw.Op{K: k, N: rapid.IntRange(0, 1).Draw(t, "lsFirst")})
				*m = *lsw.NewGenModelKeepTables(m)
			case "lsckpt":
				ops = append(ops, lsw.Op{K: k, M: rapid.SampledFrom([]string{"PASSIVE", "PASSIVE", "FULL", "RESTART", "TRUNCATE"}).Draw(t, "mode"), S: blocked})
			case "compact":
				ops = append(ops, lsw.Op{K: k, L: 1})
			default:
				ops = append(ops, lsw.Op{K: k, S: blocked})
			}
		}
	}
	ops = append(ops, lsw.Op{K: "close"})
	return lsw.Case{Cfg: cfg, Ops: ops}
}

func userMaster(ctx context.Context, db *sql.DB) ([]string, error) {
	rows, err := db.QueryContext(ctx, `SELECT type||'|'||name||'|'||tbl_name||'|'||coalesce(sql,'') FROM sqlite_master ORDER BY name`)
	if err != nil {
		return nil, err
	}
	defer rows.Close()
	var out []string
	for rows.Next() {
		var s string
		if err := rows.Scan(&s); err != nil {
			return nil, err
		}
		out = append(out, s)
	}
	return out, rows.Err()
}

func execC14(c lsw.Case) (res core.Result) {
	a, err := lsw.NewWorld(c.Cfg, core.WorkDir("c14a"))
	if err != nil {
		panic(fmt.Sprintf("harness: new world: %v", err))
	}
	defer a.Cleanup()
	b, err := lsw.NewWorld(c.Cfg, core.WorkDir("c14b"))
	if err != nil {
		panic(fmt.Sprintf("harness: new world: %v", err))
	}
	defer b.Cleanup()
	if err := a.Attach(); err != nil {
		panic(fmt.Sprintf("harness: attach: %v", err))
	}
	res.Key = core.HashStrings(c.Abstract())
	ctx := context.Background()
	ckptOK, passiveOK := 0, 0
	defer func() {
		c01Labels(a, &res)
		res.NonTrivial = ckptOK > 0 && passiveOK > 0
		if ckptOK > 0 {
			res.Labels = append(res.Labels, "ls-checkpoint-ran")
		}
	}()
	compare := func(i int, o lsw.Op, final bool) *core.Violation {
		va, da, err := lsw.Digest(ctx, a.LedgerDB())
		if err != nil {
			return &core.Violation{Oracle: "source-unreadable", Msg: fmt.Sprintf("after step %d (%s): source with litestream cannot be read: %v", i, o, err)}
		}
		vb, db2, err := lsw.Digest(ctx, b.LedgerDB())
		if err != nil {
			return &core.Violation{Oracle: "harness-control", Msg: err.Error()}
		}
		res.Evals++
		if va != vb || da != db2 {
			return &core.Violation{Oracle: "data-differs", Msg: fmt.Sprintf("after step %d (%s): user-visible data differs: with litestream v=%d %s, control v=%d %s", i, o, va, da, vb, db2)}
		}
		ma, err := userMaster(ctx, a.LedgerDB())
		if err != nil {
			return &core.Violation{Oracle: "source-unreadable", Msg: err.Error()}
		}
		mb, _ := userMaster(ctx, b.LedgerDB())
		extra := map[string]bool{}
		for _, s := range mb {
			extra[s] = true
		}
		var added []string
		for _, s := range ma {
			if extra[s] {
				delete(extra, s)
			} else {
				added = append(added, strings.SplitN(s, "|", 3)[1])
			}
		}
		sort.Strings(added)
		if len(extra) > 0 {
			return &core.Violation{Oracle: "schema-missing", Msg: fmt.Sprintf("after step %d (%s): schema objects missing with litestream: %v", i, o, extra)}
		}
		if got := strings.Join(added, ","); got != "_litestream_lock,_litestream_seq" {
			return &core.Violation{Oracle: "schema-extra", Msg: fmt.Sprintf("after step %d (%s): objects added by litestream: [%s], expected exactly _litestream_lock,_litestream_seq", i, o, got)}
		}
		var n int
		if err := a.LedgerDB().QueryRowContext(ctx, `SELECT count(*) FROM _litestream_lock`).Scan(&n); err != nil || n != 0 {
			return &core.Violation{Oracle: "lock-table-not-empty", Msg: fmt.Sprintf("after step %d (%s): _litestream_lock has %d rows (err=%v)", i, o, n, err)}
		}
		var jm string
		if err := a.LedgerDB().QueryRowContext(ctx, `PRAGMA journal_mode`).Scan(&jm); err != nil || jm != "wal" {
			return &core.Violation{Oracle: "journal-mode", Msg: fmt.Sprintf("after step %d (%s): journal_mode=%q err=%v", i, o, jm, err)}
		}
		if final || i%3 == 0 {
			var ic string
			if err := a.LedgerDB().QueryRowContext(ctx, `PRAGMA integrity_check`).Scan(&ic); err != nil || ic != "ok" {
				return &core.Violation{Oracle: "source-integrity", Msg: fmt.Sprintf("after step %d (%s): integrity_check on the source: %q err=%v", i, o, ic, err)}
			}
		}
		return nil
	}
	pts := map[int]bool{len(c.Ops) / 4: true, len(c.Ops) / 2: true, 3 * len(c.Ops) / 4: true, len(c.Ops) - 1: true}
	for i, o := range c.Ops {
		switch {
		case o.K == "coldrestart":
			if err := a.ColdRestart(true, o.N == 1); err != nil {
				panic(fmt.Sprintf("harness: cold restart: %v", err))
			}
			if err := b.ColdRestart(false, false); err != nil {
				panic(fmt.Sprintf("harness: cold restart (control): %v", err))
			}
			res.Labels = append(res.Labels, "cold-restart")
		case o.K == "reattach":
			_ = a.Detach()
			if err := a.Attach(); err != nil {
				panic(fmt.Sprintf("harness: re-attach: %v", err))
			}
			a.LSStep(lsw.Op{K: "sync"})
		case lsw.IsLSOp(o.K):
			var blockers []string
			if o.S == 1 && a.DB != nil {
				if pos, err := a.DB.Pos(); err == nil {
					for k := 1; k <= 3; k++ {
						p := filepath.Join(a.MetaDir(), "ltx", "0", ltx.FormatFilename(pos.TXID+ltx.TXID(k), pos.TXID+ltx.TXID(k))+".tmp")
						if os.MkdirAll(p, 0o755) == nil {
							blockers = append(blockers, p)
						}
					}
					res.Labels = append(res.Labels, "local-staging-blocked")
				}
			}
			sr := a.LSStep(o)
			for _, p := range blockers {
				_ = os.Remove(p)
			}
			if o.K == "lsckpt" && sr.Err == nil {
				ckptOK++
				if o.M == "PASSIVE" {
					passiveOK++
				}
			}
		default:
			ra := a.AppStep(o)
			rb := b.AppStep(o)
			if o.K == "appckpt" {
				break // busy on A only is documented behaviour (litestream's read lock), not data
			}
			ea, eb := "", ""
			if ra.Err != nil {
				ea = ra.Err.Error()
			}
			if rb.Err != nil {
				eb = rb.Err.Error()
			}
			if ra.Skipped != rb.Skipped || (ra.Err == nil) != (rb.Err == nil) {
				res.Violation = &core.Violation{Oracle: "statement-outcome", Msg: fmt.Sprintf("step %d (%s): with litestream: skipped=%v err=%q; control: skipped=%v err=%q", i, o, ra.Skipped, ea, rb.Skipped, eb)}
				return res
			}
		}
		if pts[i] {
			if v := compare(i, o, i == len(c.Ops)-1); v != nil {
				res.Violation = v
				return res
			}
		}
	}
	return res
}

func TestProp_C14(t *testing.T) {
	core.Check(t, "C14", genC14, execC14)
}
