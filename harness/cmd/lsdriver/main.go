// lsdriver is the child process used wherever the litestream code must be
// killable, traceable or crash-isolated (C03, C10, C11, C16). It links the
// litestream library from /repo, reads one JSON command per line on stdin,
// executes it on the calling goroutine and answers on stdout with
//
//	ACK <n> ok <dbTXID> <replicaTXID>
//	ACK <n> err <message>
//
// The application's SQLite connections live in the parent (the harness).
package main

import (
	"bufio"
	"context"
	"encoding/json"
	"fmt"
	"io"
	"log/slog"
	"os"
	"strings"
	"time"

	"github.com/benbjohnson/litestream"
	"github.com/benbjohnson/litestream/file"
	"github.com/superfly/ltx"

	"verifharness/inject"
	"verifharness/lsw"
)

type cmd struct {
	Op        string         `json:"op"`
	DB        string         `json:"db,omitempty"`
	Replica   string         `json:"replica,omitempty"`
	Cfg       *lsw.Config    `json:"cfg,omitempty"`
	Mode      string         `json:"mode,omitempty"`
	Level     int            `json:"level,omitempty"`
	Out       string         `json:"out,omitempty"`
	TXID      uint64         `json:"txid,omitempty"`
	TSMillis  int64          `json:"ts,omitempty"`
	Integrity int            `json:"integrity,omitempty"`
	Follow    bool           `json:"follow,omitempty"`
	FollowMS  int            `json:"follow_ms,omitempty"`
	Plan      []inject.Fault `json:"plan,omitempty"`
	Retention string         `json:"retention,omitempty"`
	N         int            `json:"n,omitempty"`
}

type state struct {
	db    *litestream.DB
	store *litestream.Store
	lv    litestream.CompactionLevels
}

func (s *state) open(c cmd) error {
	cfg := *c.Cfg
	db := litestream.NewDB(c.DB)
	db.MonitorInterval = 0
	db.BusyTimeout = 2 * time.Millisecond
	db.MinCheckpointPageN = cfg.MinCkpt
	db.TruncatePageN = cfg.TruncN
	switch cfg.CkptInterval {
	case 0:
		db.CheckpointInterval = 0
	case 1:
		db.CheckpointInterval = time.Nanosecond
	default:
		db.CheckpointInterval = time.Hour
	}
	frame := int64(cfg.PageSize + 24)
	switch {
	case cfg.MaxSyncFr == 0:
		db.MaxSyncWALBytes = 0
	case cfg.MaxSyncFr < 0:
		db.MaxSyncWALBytes = litestream.DefaultMaxSyncWALBytes
	default:
		db.MaxSyncWALBytes = int64(cfg.MaxSyncFr) * frame
	}
	fc := file.NewReplicaClient(c.Replica)
	r := litestream.NewReplicaWithClient(db, fc)
	r.MonitorEnabled = false
	fc.Replica = r
	db.Replica = r
	s.lv = lsw.MakeLevels(cfg.Levels)
	st := litestream.NewStore([]*litestream.DB{db}, s.lv)
	st.CompactionMonitorEnabled = false
	st.L0RetentionCheckInterval = 0
	st.HeartbeatCheckInterval = 0
	st.SnapshotInterval = time.Nanosecond
	st.L0Retention = time.Duration(cfg.L0RetNS)
	db.L0Retention = time.Duration(cfg.L0RetNS)
	st.RetentionEnabled = !cfg.NoRetention
	db.RetentionEnabled = !cfg.NoRetention
	db.ShutdownSyncTimeout = 0
	s.db, s.store = db, st
	return st.Open(context.Background())
}

func (s *state) run(c cmd) error {
	ctx := context.Background()
	switch c.Op {
	case "open":
		return s.open(c)
	case "sync":
		return s.db.Sync(ctx)
	case "rsync":
		return s.db.Replica.Sync(ctx)
	case "syncwait":
		return s.db.SyncAndWait(ctx)
	case "checkpoint":
		return s.db.Checkpoint(ctx, c.Mode)
	case "compact":
		_, err := s.db.Compact(ctx, c.Level)
		return err
	case "compactdb":
		var lvl *litestream.CompactionLevel
		var err error
		if c.Level == litestream.SnapshotLevel {
			lvl = s.store.SnapshotLevel()
		} else if lvl, err = s.lv.Level(c.Level); err != nil {
			return err
		}
		_, err = s.store.CompactDB(ctx, s.db, lvl)
		return err
	case "snapshot":
		_, err := s.db.Snapshot(ctx)
		return err
	case "retain":
		switch c.Retention {
		case "l0":
			return s.db.EnforceL0RetentionByTime(ctx)
		case "snapshot":
			_, err := s.db.EnforceSnapshotRetention(ctx, time.UnixMilli(c.TSMillis))
			return err
		case "store":
			s.store.SnapshotRetention = time.Since(time.UnixMilli(c.TSMillis))
			return s.store.EnforceSnapshotRetention(ctx, s.db)
		}
		return fmt.Errorf("unknown retention %q", c.Retention)
	case "close":
		if s.store == nil {
			return nil
		}
		err := s.store.Close(ctx)
		s.store, s.db = nil, nil
		return err
	case "restore":
		var client litestream.ReplicaClient = file.NewReplicaClient(c.Replica)
		if len(c.Plan) > 0 {
			client = &inject.FaultClient{Inner: client, Plan: c.Plan, Enabled: true, Only: "open"}
		}
		r := litestream.NewReplicaWithClient(nil, client)
		opt := litestream.NewRestoreOptions()
		opt.OutputPath = c.Out
		opt.TXID = ltx.TXID(c.TXID)
		if c.TSMillis != 0 {
			opt.Timestamp = time.UnixMilli(c.TSMillis).UTC()
		}
		opt.IntegrityCheck = litestream.IntegrityCheckMode(c.Integrity)
		if c.Follow {
			opt.Follow = true
			opt.FollowInterval = time.Duration(c.FollowMS) * time.Millisecond
			// follow mode runs until the context is cancelled: SIGTERM cancels it
			// (the handler is installed at process start: a SIGTERM that arrives before this command has been read must
			// not kill the process with the default action)
			fctx, cancel := context.WithCancel(ctx)
			defer cancel()
			go func() {
				select {
				case <-termCtx.Done():
					cancel()
				case <-fctx.Done():
				}
			}()
			return r.Restore(fctx, opt)
		}
		return r.Restore(ctx, opt)
	}
	return fmt.Errorf("unknown op %q", c.Op)
}

var termCtx context.Context

func main() {
	var termCancel context.CancelFunc
	termCtx, termCancel = context.WithCancel(context.Background())
	installTerm(termCancel)
	slog.SetDefault(slog.New(slog.NewTextHandler(io.Discard, &slog.HandlerOptions{Level: slog.LevelError + 8})))
	s := &state{}
	in := bufio.NewReaderSize(os.Stdin, 1<<20)
	n := 0
	for {
		line, err := in.ReadString('\n')
		if line == "" && err != nil {
			return
		}
		line = strings.TrimSpace(line)
		if line == "" {
			continue
		}
		n++
		var c cmd
		if err := json.Unmarshal([]byte(line), &c); err != nil {
			fmt.Printf("ACK %d err bad command: %v\n", n, err)
			continue
		}
		if c.Op == "exit" {
			fmt.Printf("ACK %d ok 0 0\n", n)
			return
		}
		// BEGIN marker: lets the parent attribute a crash to the command in flight
		fmt.Printf("BEGIN %d\n", n)
		rerr := s.run(c)
		var dbTX, rTX uint64
		if s.db != nil {
			if pos, err := s.db.Pos(); err == nil {
				dbTX = uint64(pos.TXID)
			}
			if s.db.Replica != nil {
				rTX = uint64(s.db.Replica.Pos().TXID)
			}
		}
		if rerr != nil {
			fmt.Printf("ACK %d err %s\n", n, strings.ReplaceAll(rerr.Error(), "\n", " | "))
		} else {
			fmt.Printf("ACK %d ok %d %d\n", n, dbTX, rTX)
		}
	}
}
