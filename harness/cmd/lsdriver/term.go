package main

import (
	"os"
	"os/signal"
	"syscall"
)

func installTerm(cancel func()) {
	ch := make(chan os.Signal, 1)
	signal.Notify(ch, syscall.SIGTERM, syscall.SIGINT)
	go func() { <-ch; cancel() }()
}
