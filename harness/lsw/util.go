package lsw

import "time"

func timeZero() time.Time { return time.Time{} }
