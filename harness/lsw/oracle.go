package lsw

import (
	"bytes"
	"context"
	"database/sql"
	"fmt"
	"io"
	"os"
	"path/filepath"

	"github.com/superfly/ltx"

	"verifharness/refwal"
)

// readAllFD reads the whole database file through the persistent descriptor
// (never open+close the live database file inside this process: closing any
// descriptor of a file drops the process's POSIX locks on it).
func (w *World) readAllFD() ([]byte, error) {
	fi, err := w.dbfd.Stat()
	if err != nil {
		return nil, err
	}
	b := make([]byte, fi.Size())
	_, err = w.dbfd.ReadAt(b, 0)
	if err != nil && err != io.EOF {
		return nil, err
	}
	return b, nil
}

// Reference is the reference image of the source at one instant (R1).
type Reference struct {
	Image    []byte // main database file after SQLite's own recovery + TRUNCATE checkpoint of a copy
	SeqRoot  int    // root page of _litestream_seq (0 if the table does not exist)
	Seq      int64  // value of the seq row (-1 if none)
	PageSize int
	V        int64  // version stamp of the committed state
	Digest   string // logical digest of the committed state
}

var refCounter int

// TakeReference copies (db, db-wal) to a scratch directory, lets SQLite recover
// and checkpoint the copy, and returns the resulting main file. No litestream
// code is involved.
func (w *World) TakeReference() (*Reference, error) {
	refCounter++
	// Every 4th reference (and the first of a case) is produced by real SQLite; the others by the independent
	// WAL decoder (refwal) applied to the same bytes, with logical fields read through the ledger connection.
	// The two constructions are compared against each other whenever SQLite is used, so a decoder error cannot hide.
	dbb0, err0 := w.readAllFD()
	if err0 != nil {
		return nil, err0
	}
	wal0 := w.ReadWAL()
	fast := w.fastReference(dbb0, wal0)
	if fast != nil && !(w.refN%4 == 0) && !w.NoFastRef {
		w.refN++
		return fast, nil
	}
	w.refN++
	slow, err := w.sqliteReference(dbb0, wal0)
	if err != nil {
		return nil, err
	}
	if fast != nil && !bytes.Equal(fast.Image, slow.Image) {
		return nil, fmt.Errorf("harness: refwal-based reference image differs from SQLite's own recovery (%d vs %d bytes)", len(fast.Image), len(slow.Image))
	}
	if fast != nil && (fast.V != slow.V || fast.Digest != slow.Digest || fast.SeqRoot != slow.SeqRoot || (fast.Seq != slow.Seq && !w.NoFastRef)) {
		return nil, fmt.Errorf("harness: ledger-based reference (v=%d %s seqroot=%d seq=%d) differs from SQLite copy (v=%d %s seqroot=%d seq=%d)",
			fast.V, fast.Digest, fast.SeqRoot, fast.Seq, slow.V, slow.Digest, slow.SeqRoot, slow.Seq)
	}
	return slow, nil
}

// fastReference applies the committed WAL frames (independent decoder) to the database bytes. Returns nil when it
// cannot be used (e.g. the ledger connection cannot read right now).
func (w *World) fastReference(dbb, wal []byte) *Reference {
	ps := w.Cfg.PageSize
	img := append([]byte(nil), dbb...)
	d := refwal.Decode(wal)
	if d.HeaderOK && int(d.PageSize) != ps {
		return nil
	}
	if d.HeaderOK {
		v := d.ViewFrom(0, 0)
		if v.Commit > 0 {
			need := int(v.Commit) * ps
			if len(img) < need {
				img = append(img, make([]byte, need-len(img))...)
			}
			for pg, off := range v.Pages {
				copy(img[(int(pg)-1)*ps:int(pg)*ps], wal[off+refwal.FrameHeaderSize:off+refwal.FrameHeaderSize+int64(ps)])
			}
			img = img[:need]
		}
	}
	ref := &Reference{PageSize: ps, Seq: -1, Image: img}
	if err := w.ledgerDB.QueryRowContext(w.ctx, `SELECT rootpage FROM sqlite_master WHERE name='_litestream_seq'`).Scan(&ref.SeqRoot); err != nil && err != sql.ErrNoRows {
		return nil
	}
	if ref.SeqRoot != 0 {
		if err := w.ledgerDB.QueryRowContext(w.ctx, `SELECT seq FROM _litestream_seq WHERE id=1`).Scan(&ref.Seq); err != nil && err != sql.ErrNoRows {
			return nil
		}
	}
	d2, ok := w.Ledger[w.LastV]
	if !ok {
		return nil
	}
	ref.V, ref.Digest = w.LastV, d2
	return ref
}

func (w *World) sqliteReference(dbb, wal []byte) (*Reference, error) {
	dir := filepath.Join(w.Dir, fmt.Sprintf("ref%d", refCounter))
	if err := os.MkdirAll(dir, 0o755); err != nil {
		return nil, err
	}
	defer os.RemoveAll(dir)
	p := filepath.Join(dir, "ref.db")
	if err := os.WriteFile(p, dbb, 0o644); err != nil {
		return nil, err
	}
	if wal != nil {
		if err := os.WriteFile(p+"-wal", wal, 0o644); err != nil {
			return nil, err
		}
	}
	return checkpointCopy(w.ctx, p, w.Cfg.PageSize)
}

// CheckpointCopy lets SQLite recover and checkpoint a stand-alone copy (db + optional -wal) and returns it as a reference.
func CheckpointCopy(ctx context.Context, p string, pageSize int) (*Reference, error) {
	return checkpointCopy(ctx, p, pageSize)
}

func checkpointCopy(ctx context.Context, p string, pageSize int) (*Reference, error) {
	db, err := sql.Open("sqlite", fmt.Sprintf("file:%s?_pragma=busy_timeout(1000)&_pragma=wal_autocheckpoint(0)", p))
	if err != nil {
		return nil, err
	}
	db.SetMaxOpenConns(1)
	ref := &Reference{PageSize: pageSize, Seq: -1}
	var a, b, c int
	if err := db.QueryRowContext(ctx, `PRAGMA wal_checkpoint(TRUNCATE)`).Scan(&a, &b, &c); err != nil {
		db.Close()
		return nil, fmt.Errorf("reference checkpoint: %w", err)
	}
	if a != 0 {
		db.Close()
		return nil, fmt.Errorf("reference checkpoint busy=%d", a)
	}
	_ = db.QueryRowContext(ctx, `SELECT rootpage FROM sqlite_master WHERE name='_litestream_seq'`).Scan(&ref.SeqRoot)
	if ref.SeqRoot != 0 {
		_ = db.QueryRowContext(ctx, `SELECT seq FROM _litestream_seq WHERE id=1`).Scan(&ref.Seq)
	}
	ref.V, ref.Digest, err = Digest(ctx, db)
	if err != nil {
		db.Close()
		return nil, fmt.Errorf("reference digest: %w", err)
	}
	if err := db.Close(); err != nil {
		return nil, err
	}
	img, err := os.ReadFile(p)
	if err != nil {
		return nil, err
	}
	ref.Image = img
	return ref, nil
}

// Mismatch describes a failed comparison.
type Mismatch struct {
	Oracle string
	Msg    string
}

func (m *Mismatch) Error() string { return m.Oracle + ": " + m.Msg }

// CompareRestored checks a restored file against the reference: equal length,
// byte-equal pages except the single leaf page of _litestream_seq (compared
// logically: restored seq <= reference seq), integrity_check ok, and the
// logical digest equal.
func CompareRestored(ctx context.Context, ref *Reference, restoredPath string) *Mismatch {
	got, err := os.ReadFile(restoredPath)
	if err != nil {
		return &Mismatch{"r1-read", err.Error()}
	}
	ps := ref.PageSize
	if len(got) != len(ref.Image) {
		return &Mismatch{"r1-size", fmt.Sprintf("restored %d bytes (%d pages), reference %d bytes (%d pages)", len(got), len(got)/ps, len(ref.Image), len(ref.Image)/ps)}
	}
	lock := int(ltx.LockPgno(uint32(ps)))
	var diff []int
	for pg := 1; pg*ps <= len(got); pg++ {
		if pg == ref.SeqRoot || pg == lock {
			continue
		}
		if !bytes.Equal(got[(pg-1)*ps:pg*ps], ref.Image[(pg-1)*ps:pg*ps]) {
			diff = append(diff, pg)
			if len(diff) > 8 {
				break
			}
		}
	}
	if len(diff) > 0 {
		return &Mismatch{"r1-pages", fmt.Sprintf("pages differ from the source's committed state: %v (of %d pages)", diff, len(got)/ps)}
	}
	db, err := sql.Open("sqlite", fmt.Sprintf("file:%s?_pragma=busy_timeout(1000)", restoredPath))
	if err != nil {
		return &Mismatch{"r1-open", err.Error()}
	}
	defer func() {
		db.Close()
		os.Remove(restoredPath + "-wal")
		os.Remove(restoredPath + "-shm")
	}()
	var ic string
	if err := db.QueryRowContext(ctx, `PRAGMA integrity_check`).Scan(&ic); err != nil {
		return &Mismatch{"r1-integrity", "integrity_check: " + err.Error()}
	} else if ic != "ok" {
		return &Mismatch{"r1-integrity", "integrity_check: " + ic}
	}
	if ref.SeqRoot != 0 {
		var seq int64 = -1
		_ = db.QueryRowContext(ctx, `SELECT seq FROM _litestream_seq WHERE id=1`).Scan(&seq)
		if seq > ref.Seq {
			return &Mismatch{"r1-seq", fmt.Sprintf("restored seq %d > source seq %d", seq, ref.Seq)}
		}
	}
	v, d, err := Digest(ctx, db)
	if err != nil {
		return &Mismatch{"r1-digest", err.Error()}
	}
	if v != ref.V || d != ref.Digest {
		return &Mismatch{"r1-logical", fmt.Sprintf("restored logical state v=%d/%s, source v=%d/%s", v, d, ref.V, ref.Digest)}
	}
	return nil
}

var restoreCounter int

// CheckR1 takes the reference now, restores the latest state from the replica
// directory alone and compares. Also checks that the replica's highest L0 TXID
// equals the DB position (when litestream is attached).
func (w *World) CheckR1() *Mismatch {
	ref, err := w.TakeReference()
	if err != nil {
		return &Mismatch{"harness-reference", err.Error()}
	}
	return w.CheckAgainst(ref, 0)
}

// CheckAgainst restores (latest, or the given TXID) and compares with ref.
func (w *World) CheckAgainst(ref *Reference, txid ltx.TXID) *Mismatch {
	restoreCounter++
	out := filepath.Join(w.Dir, fmt.Sprintf("restore%d.db", restoreCounter))
	defer os.Remove(out)
	if err := RestoreTo(w.ctx, w.ReplicaDir, out, txid, zeroTime); err != nil {
		return &Mismatch{"r1-restore-error", fmt.Sprintf("restore failed after an acknowledged sync: %v", err)}
	}
	return CompareRestored(w.ctx, ref, out)
}

var zeroTime = timeZero()

// ZeroTime is the zero time.Time (no timestamp target).
var ZeroTime = zeroTime

// InspectFile opens a (restored) database file and returns its version stamp,
// logical digest and integrity_check result.
func InspectFile(ctx context.Context, path string) (int64, string, string, error) {
	db, err := sql.Open("sqlite", fmt.Sprintf("file:%s?_pragma=busy_timeout(1000)", path))
	if err != nil {
		return 0, "", "", err
	}
	defer db.Close()
	db.SetMaxOpenConns(1)
	var ic string
	if err := db.QueryRowContext(ctx, `PRAGMA integrity_check`).Scan(&ic); err != nil {
		return 0, "", "", fmt.Errorf("integrity_check: %w", err)
	}
	v, d, err := Digest(ctx, db)
	return v, d, ic, err
}
