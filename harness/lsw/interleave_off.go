//go:build !verif

package lsw

var Phases []string

type pendingAt struct{}

func (w *World) installInterleave(xs []Op) {}
func (w *World) finishInterleave()         {}
