// Package lsw ("litestream world") holds the shared machinery of the
// history-based properties: the application workload grammar (DESIGN §3.1),
// an executor that drives a real SQLite database plus a real litestream DB
// object from /repo, the logical ledger, and the page oracle R1 (§3.2).
package lsw

import (
	"fmt"

	"pgregory.net/rapid"
)

// Config is the per-case configuration (all values are chosen so that the
// outcome never depends on how fast the test runs).
type Config struct {
	PageSize     int  `json:"ps"`
	AutoVacuum   int  `json:"av"`           // 0 none, 1 full, 2 incremental
	SmallCache   bool `json:"sc,omitempty"` // cache_size=5 on app connections: uncommitted frames spill into the WAL
	AppAutoCkpt  int  `json:"aac"`          // wal_autocheckpoint on app connections (0 = off)
	MinCkpt      int  `json:"minck"`
	TruncN       int  `json:"truncn"`             // 0 = litestream default
	CkptInterval int  `json:"cki"`                // 0 = off, 1 = 1ns, 2 = 1h
	MaxSyncFr    int  `json:"msf"`                // MaxSyncWALBytes in frames; 0 = unlimited, -1 = default 64MiB
	Levels       int  `json:"lv"`                 // number of compaction levels above L0 (>=1)
	L0RetNS      int64 `json:"l0r,omitempty"`     // L0Retention in ns (0 = disabled)
	NoRetention  bool `json:"noret,omitempty"`    // RetentionEnabled=false
	ShutdownMS   int  `json:"sdms,omitempty"`     // ShutdownSyncTimeout in ms
	ViaServer    bool `json:"srv,omitempty"`      // acknowledge through Server + unix socket (sync -wait path)
	VerifyCompaction bool `json:"vc,omitempty"`
}

// Op is one step of a history. Unused fields are zero and omitted.
type Op struct {
	K string `json:"k"`
	C int    `json:"c,omitempty"` // app connection
	T int    `json:"t,omitempty"` // table
	N int    `json:"n,omitempty"` // count / generic number
	S int    `json:"s,omitempty"` // size class
	A int    `json:"a,omitempty"` // range start (percent)
	B int    `json:"b,omitempty"` // range end (percent)
	M string `json:"m,omitempty"` // mode
	L int    `json:"l,omitempty"` // level
	X []Op   `json:"x,omitempty"` // nested ops (episodes)
}

// S2 returns the checkpoint mode carried by a nested "ls checkpoint" op (field L: 0 PASSIVE, 1 FULL, 2 RESTART, 3 TRUNCATE).
func (o Op) S2() string {
	return [...]string{"PASSIVE", "FULL", "RESTART", "TRUNCATE"}[o.L&3]
}

func (o Op) String() string {
	s := o.K
	if o.C != 0 {
		s += fmt.Sprintf(" c%d", o.C)
	}
	if o.K == "insert" || o.K == "update" || o.K == "delete" || o.K == "create" || o.K == "drop" || o.K == "index" {
		s += fmt.Sprintf(" t%d", o.T)
	}
	if o.N != 0 {
		s += fmt.Sprintf(" n=%d", o.N)
	}
	if o.S != 0 {
		s += fmt.Sprintf(" s=%d", o.S)
	}
	if o.A != 0 || o.B != 0 {
		s += fmt.Sprintf(" [%d,%d]", o.A, o.B)
	}
	if o.M != "" {
		s += " " + o.M
	}
	if o.L != 0 {
		s += fmt.Sprintf(" L%d", o.L)
	}
	return s
}

// Case is a configuration plus a history.
type Case struct {
	Cfg Config `json:"cfg"`
	Ops []Op   `json:"ops"`
}

// Abstract returns the abstracted op sequence used for distinct counting.
func (c Case) Abstract() string {
	s := fmt.Sprintf("%+v|", c.Cfg)
	for _, o := range c.Ops {
		s += o.K + ":" + o.M
		for _, x := range o.X {
			s += "@" + x.M
			for _, y := range x.X {
				s += "/" + y.K
			}
		}
		s += ";"
	}
	return s
}

// ---------------------------------------------------------------- generator

const (
	NumConns  = 3
	NumTables = 3
)

// GenModel is the generator-side abstract state used to draw only enabled ops.
type GenModel struct {
	ConnOpen [NumConns]bool
	Tx       [NumConns]int // 0 none, 1 read, 2 write
	Writer   int           // conn holding the write lock, -1 none
	Table    [NumTables]bool
	Rows     [NumTables]int // rough
	LSOpen   bool
	Levels   int
	Steps    int
}

// NewGenModel returns the initial model: conn 0 open, table 0 exists.
func NewGenModel(cfg Config) *GenModel {
	m := &GenModel{Writer: -1, LSOpen: true, Levels: cfg.Levels}
	m.ConnOpen[0] = true
	m.Table[0] = true
	return m
}

// NewGenModelKeepTables returns the model after every connection was closed and connection 0 reopened: tables and
// rough row counts survive, transactions and extra connections do not.
func NewGenModelKeepTables(old *GenModel) *GenModel {
	m := &GenModel{Writer: -1, LSOpen: true, Levels: old.Levels, Table: old.Table, Rows: old.Rows, Steps: old.Steps}
	m.ConnOpen[0] = true
	return m
}

var pageSizes = []int{512, 1024, 4096, 512, 1024, 4096, 512, 1024, 4096, 2048, 8192, 16384, 32768, 65536}

// GenConfig draws a configuration.
func GenConfig(t *rapid.T, thorough bool) Config {
	var c Config
	if thorough {
		c.PageSize = rapid.SampledFrom([]int{512, 1024, 2048, 4096, 8192, 16384, 32768, 65536}).Draw(t, "ps")
	} else {
		c.PageSize = rapid.SampledFrom(pageSizes).Draw(t, "ps")
	}
	c.AutoVacuum = rapid.SampledFrom([]int{0, 0, 1, 2}).Draw(t, "av")
	c.SmallCache = rapid.Bool().Draw(t, "smallcache")
	c.AppAutoCkpt = rapid.SampledFrom([]int{0, 0, 1000, 2}).Draw(t, "aac")
	c.MinCkpt = rapid.SampledFrom([]int{1, 2, 5, 20, 1000}).Draw(t, "minck")
	c.TruncN = rapid.SampledFrom([]int{0, 3, 10, 50, 0}).Draw(t, "truncn")
	c.CkptInterval = rapid.SampledFrom([]int{0, 1, 2}).Draw(t, "cki")
	c.MaxSyncFr = rapid.SampledFrom([]int{0, 1, 3, -1}).Draw(t, "msf")
	c.Levels = rapid.IntRange(1, 3).Draw(t, "levels")
	return c
}

// AppOpGen draws one enabled application op and updates the model.
func (m *GenModel) AppOp(t *rapid.T) Op {
	type cand struct {
		w  int
		mk func() Op
	}
	var cs []cand
	add := func(w int, mk func() Op) { cs = append(cs, cand{w, mk}) }

	// connections that can write right now: open, and (own the write txn, or no tx and nobody holds the lock)
	var writers []int
	for c := 0; c < NumConns; c++ {
		if !m.ConnOpen[c] {
			continue
		}
		if m.Tx[c] == 2 || (m.Tx[c] == 0 && m.Writer == -1) {
			writers = append(writers, c)
		}
	}
	var existing, missing []int
	for i := 0; i < NumTables; i++ {
		if m.Table[i] {
			existing = append(existing, i)
		} else {
			missing = append(missing, i)
		}
	}
	if len(writers) > 0 {
		if len(existing) > 0 {
			add(30, func() Op {
				c := rapid.SampledFrom(writers).Draw(t, "conn")
				tb := rapid.SampledFrom(existing).Draw(t, "table")
				n := rapid.SampledFrom([]int{1, 1, 2, 5, 12, 30}).Draw(t, "n")
				s := rapid.IntRange(0, 3).Draw(t, "size")
				m.Rows[tb] += n
				return Op{K: "insert", C: c, T: tb, N: n, S: s}
			})
			add(25, func() Op {
				c := rapid.SampledFrom(writers).Draw(t, "conn")
				tb := rapid.SampledFrom(existing).Draw(t, "table")
				a := rapid.IntRange(0, 100).Draw(t, "a")
				b := rapid.IntRange(a, 100).Draw(t, "b")
				return Op{K: "update", C: c, T: tb, A: a, B: b}
			})
			add(12, func() Op {
				c := rapid.SampledFrom(writers).Draw(t, "conn")
				tb := rapid.SampledFrom(existing).Draw(t, "table")
				a := rapid.IntRange(0, 100).Draw(t, "a")
				b := rapid.IntRange(a, 100).Draw(t, "b")
				m.Rows[tb] -= m.Rows[tb] * (b - a) / 100
				return Op{K: "delete", C: c, T: tb, A: a, B: b}
			})
			add(3, func() Op {
				c := rapid.SampledFrom(writers).Draw(t, "conn")
				tb := rapid.SampledFrom(existing).Draw(t, "table")
				m.Table[tb] = false
				m.Rows[tb] = 0
				return Op{K: "drop", C: c, T: tb}
			})
			add(3, func() Op {
				c := rapid.SampledFrom(writers).Draw(t, "conn")
				tb := rapid.SampledFrom(existing).Draw(t, "table")
				return Op{K: "index", C: c, T: tb}
			})
		}
		if len(missing) > 0 {
			add(6, func() Op {
				c := rapid.SampledFrom(writers).Draw(t, "conn")
				tb := rapid.SampledFrom(missing).Draw(t, "table")
				m.Table[tb] = true
				return Op{K: "create", C: c, T: tb}
			})
		}
	}
	// transactions
	for c := 0; c < NumConns; c++ {
		c := c
		if !m.ConnOpen[c] {
			continue
		}
		switch m.Tx[c] {
		case 0:
			if m.Writer == -1 {
				add(6, func() Op { m.Tx[c] = 2; m.Writer = c; return Op{K: "begin", C: c} })
			}
			add(3, func() Op { m.Tx[c] = 1; return Op{K: "beginread", C: c} })
		case 1:
			add(6, func() Op { m.Tx[c] = 0; return Op{K: "endread", C: c} })
		case 2:
			add(10, func() Op { m.Tx[c] = 0; m.Writer = -1; return Op{K: "commit", C: c} })
			add(6, func() Op { m.Tx[c] = 0; m.Writer = -1; return Op{K: "rollback", C: c} })
		}
	}
	// connection lifecycle
	for c := 1; c < NumConns; c++ {
		c := c
		if !m.ConnOpen[c] {
			add(3, func() Op { m.ConnOpen[c] = true; return Op{K: "openconn", C: c} })
		} else if m.Tx[c] == 0 {
			add(2, func() Op { m.ConnOpen[c] = false; return Op{K: "closeconn", C: c} })
		}
	}
	// vacuum / checkpoints need a connection with no open transaction and nobody writing
	var idle []int
	for c := 0; c < NumConns; c++ {
		if m.ConnOpen[c] && m.Tx[c] == 0 {
			idle = append(idle, c)
		}
	}
	if len(idle) > 0 {
		if m.Writer == -1 {
			add(3, func() Op { return Op{K: "vacuum", C: rapid.SampledFrom(idle).Draw(t, "conn")} })
			add(4, func() Op {
				return Op{K: "incvacuum", C: rapid.SampledFrom(idle).Draw(t, "conn"), N: rapid.IntRange(0, 20).Draw(t, "n")}
			})
		}
		add(10, func() Op {
			return Op{K: "appckpt", C: rapid.SampledFrom(idle).Draw(t, "conn"),
				M: rapid.SampledFrom([]string{"PASSIVE", "FULL", "RESTART", "TRUNCATE"}).Draw(t, "mode")}
		})
	}
	total := 0
	for _, c := range cs {
		total += c.w
	}
	r := rapid.IntRange(0, total-1).Draw(t, "appop")
	for _, c := range cs {
		if r < c.w {
			m.Steps++
			return c.mk()
		}
		r -= c.w
	}
	panic("unreachable")
}

// CloseOutTx returns ops that end every open transaction / reader (used where a
// property's premise is "no application transaction is pinned open").
func (m *GenModel) CloseOutTx() []Op {
	var ops []Op
	for c := 0; c < NumConns; c++ {
		switch m.Tx[c] {
		case 1:
			ops = append(ops, Op{K: "endread", C: c})
		case 2:
			ops = append(ops, Op{K: "commit", C: c})
			m.Writer = -1
		}
		m.Tx[c] = 0
	}
	return ops
}
