package lsw

import (
	"bytes"
	"context"
	"crypto/sha256"
	"database/sql"
	"encoding/binary"
	"encoding/hex"
	"encoding/json"
	"errors"
	"fmt"
	"io"
	"log/slog"
	"net"
	"net/http"
	"os"
	"path/filepath"
	"sort"
	"strings"
	"time"

	"github.com/benbjohnson/litestream"
	"github.com/benbjohnson/litestream/file"
	"github.com/superfly/ltx"
	_ "modernc.org/sqlite"

	"verifharness/refwal"
)

// Quiet silences litestream's logging (it logs through slog's default logger).
func Quiet() {
	slog.SetDefault(slog.New(slog.NewTextHandler(io.Discard, &slog.HandlerOptions{Level: slog.LevelError + 8})))
}

type appConn struct {
	db   *sql.DB
	conn *sql.Conn
	tx   int // 0 none, 1 read, 2 write
}

// Obs are harness-side observations used for class labels and shape keys.
// Nothing in here is read from litestream internals.
type Obs struct {
	WALRestarts        int // WAL header salts changed between two steps
	WALRestartSinceAck bool
	ShrinkThenGrow     bool
	shrunk             bool
	lastPages          int64
	AppCkptWhileOpen   int
	AckInOpenTx        int // acks while an app write txn was open
	AckWithSpill       int // acks/syncs while uncommitted frames were physically in the WAL
	SyncWithSpill      int
	RollbackSpilled    int // rollbacks whose frames had spilled
	ChunkedSync        int // syncs where MaxSyncWALBytes < pending WAL bytes
	Acks               int
	AckErrors          int
	LSErrors           map[string]int
	AppErrors          map[string]int
	AppSkipped         int
	Commits            int
	HookFired          int // interleave entries executed inside a litestream phase hook
	HookLate           int // entries whose phase did not occur (executed after the op)
	HookCommits        int // entries that committed an application transaction inside the hook
	HookLockHeld       int // entries that left an application write transaction open when the hook returned
	BGSpawned          int // litestream calls started on their own goroutine from inside a hook
	LSInHook           int // litestream calls made synchronously from inside a hook
	lastSalt           [2]uint32
}

// World is one executing case.
type World struct {
	Dir        string
	DBPath     string
	ReplicaDir string
	ArchiveDir string
	Cfg        Config

	conns    [NumConns]*appConn
	ledgerDB *sql.DB
	Ledger   map[int64]string // version stamp -> digest
	LastV    int64

	DB     *litestream.DB
	Store  *litestream.Store
	Levels litestream.CompactionLevels
	Server *litestream.Server
	Client litestream.ReplicaClient // client handed to litestream (possibly wrapped)
	// WrapClient, if set, wraps the file client before it is given to litestream.
	WrapClient func(litestream.ReplicaClient) litestream.ReplicaClient

	dbfd *os.File
	refN int
	// SkipLedger disables the logical ledger (used by C17 whose databases hold ~1 GiB of payload; only pages are compared).
	SkipLedger bool
	// NoFastRef forces every reference image through SQLite's own recovery (used when litestream runs in another
	// process that may be killed mid-transaction, leaving committed-looking frames the live wal-index does not list).
	NoFastRef bool
	ctr       uint64
	Obs       Obs
	ctx       context.Context

	// interleaving state (interleave.go)
	pend          []*pendingAt
	bg            []chan struct{}
	phaseCount    map[string]int
	inHook        bool
	OpCommits     int            // application commits executed inside hooks of the current / last litestream op
	OpLateCommits int            // commits of entries executed after the op because their phase never occurred
	PhasesFired   map[string]int // phase -> number of entries executed there
}

// StepResult is the outcome of one op.
type StepResult struct {
	Err     error
	Skipped bool
	Acked   bool // an acknowledging call returned nil
}

func payload(ctr uint64, size int) []byte {
	b := make([]byte, size)
	x := ctr*0x9E3779B97F4A7C15 + 0x1234567
	for i := 0; i+8 <= size; i += 8 {
		x ^= x << 13
		x ^= x >> 7
		x ^= x << 17
		binary.LittleEndian.PutUint64(b[i:], x)
	}
	for i := size - size%8; i < size; i++ {
		b[i] = byte(x >> (8 * uint(i%8)))
	}
	return b
}

// NewWorld creates the directories and the application database (conn 0 open,
// table t0 and the version table created) but does not attach litestream.
func NewWorld(cfg Config, dir string) (*World, error) {
	w := &World{Dir: dir, Cfg: cfg, Ledger: map[int64]string{}, ctx: context.Background()}
	w.DBPath = filepath.Join(dir, "db")
	w.ReplicaDir = filepath.Join(dir, "replica")
	w.ArchiveDir = filepath.Join(dir, "archive")
	w.Obs.LSErrors = map[string]int{}
	w.Obs.AppErrors = map[string]int{}
	if err := w.openConn(0, true); err != nil {
		return nil, err
	}
	c := w.conns[0]
	for _, q := range []string{
		`BEGIN IMMEDIATE`,
		`CREATE TABLE _v (v INTEGER)`,
		`INSERT INTO _v VALUES (0)`,
		`CREATE TABLE t0 (id INTEGER PRIMARY KEY, k INTEGER, v BLOB)`,
		`COMMIT`,
	} {
		if _, err := c.conn.ExecContext(w.ctx, q); err != nil {
			return nil, fmt.Errorf("init %q: %w", q, err)
		}
	}
	if err := w.openLedger(); err != nil {
		return nil, err
	}
	if err := w.recordLedger(); err != nil {
		return nil, err
	}
	if err := w.reopenFD(); err != nil {
		return nil, err
	}
	return w, nil
}

func (w *World) reopenFD() error {
	if w.dbfd != nil {
		// closing this descriptor would drop the process's POSIX locks on the file, so
		// it is only ever done while no SQLite connection of this process is open
		_ = w.dbfd.Close()
		w.dbfd = nil
	}
	f, err := os.Open(w.DBPath)
	if err != nil {
		return err
	}
	w.dbfd = f
	return nil
}

func (w *World) dsn() string {
	s := fmt.Sprintf("file:%s?_pragma=busy_timeout(5)&_pragma=wal_autocheckpoint(%d)", w.DBPath, w.Cfg.AppAutoCkpt)
	if w.Cfg.SmallCache {
		s += "&_pragma=cache_size(5)"
	}
	return s
}

func (w *World) openConn(i int, first bool) error {
	db, err := sql.Open("sqlite", w.dsn())
	if err != nil {
		return err
	}
	db.SetMaxOpenConns(1)
	conn, err := db.Conn(w.ctx)
	if err != nil {
		db.Close()
		return err
	}
	if first {
		for _, q := range []string{
			fmt.Sprintf(`PRAGMA page_size=%d`, w.Cfg.PageSize),
			fmt.Sprintf(`PRAGMA auto_vacuum=%d`, w.Cfg.AutoVacuum),
			`PRAGMA journal_mode=WAL`,
		} {
			if _, err := conn.ExecContext(w.ctx, q); err != nil {
				return fmt.Errorf("%s: %w", q, err)
			}
		}
	}
	w.conns[i] = &appConn{db: db, conn: conn}
	return nil
}

func (w *World) closeConn(i int) {
	c := w.conns[i]
	if c == nil {
		return
	}
	if c.tx != 0 {
		_, _ = c.conn.ExecContext(w.ctx, `ROLLBACK`)
	}
	_ = c.conn.Close()
	_ = c.db.Close()
	w.conns[i] = nil
}

func (w *World) openLedger() error {
	db, err := sql.Open("sqlite", fmt.Sprintf("file:%s?_pragma=busy_timeout(200)&_pragma=wal_autocheckpoint(0)", w.DBPath))
	if err != nil {
		return err
	}
	db.SetMaxOpenConns(1)
	w.ledgerDB = db
	return nil
}

// Digest returns the version stamp and the logical digest of a database:
// sqlite_master (minus litestream's own tables, minus root page numbers) and
// every row of every user table in primary-key order.
func Digest(ctx context.Context, db *sql.DB) (int64, string, error) {
	conn, err := db.Conn(ctx)
	if err != nil {
		return 0, "", err
	}
	defer conn.Close()
	if _, err := conn.ExecContext(ctx, `BEGIN`); err != nil {
		return 0, "", err
	}
	defer conn.ExecContext(ctx, `ROLLBACK`)
	return DigestOn(ctx, conn)
}

// DigestOn computes the digest over an existing connection (inside whatever transaction it has open).
func DigestOn(ctx context.Context, conn *sql.Conn) (int64, string, error) {
	var v int64
	if err := conn.QueryRowContext(ctx, `SELECT v FROM _v`).Scan(&v); err != nil {
		return 0, "", fmt.Errorf("read version: %w", err)
	}
	h := sha256.New()
	rows, err := conn.QueryContext(ctx, `SELECT type, name, tbl_name, coalesce(sql,'') FROM sqlite_master WHERE name NOT LIKE '\_litestream\_%' ESCAPE '\' ORDER BY name`)
	if err != nil {
		return 0, "", err
	}
	var tables []string
	for rows.Next() {
		var typ, name, tbl, sqls string
		if err := rows.Scan(&typ, &name, &tbl, &sqls); err != nil {
			rows.Close()
			return 0, "", err
		}
		fmt.Fprintf(h, "M|%s|%s|%s|%s\n", typ, name, tbl, sqls)
		if typ == "table" && !strings.HasPrefix(name, "sqlite_") {
			tables = append(tables, name)
		}
	}
	if err := rows.Err(); err != nil {
		return 0, "", err
	}
	rows.Close()
	for _, tb := range tables {
		q := fmt.Sprintf(`SELECT * FROM "%s" ORDER BY 1`, tb)
		rs, err := conn.QueryContext(ctx, q)
		if err != nil {
			return 0, "", fmt.Errorf("%s: %w", q, err)
		}
		cols, _ := rs.Columns()
		vals := make([]any, len(cols))
		ptrs := make([]any, len(cols))
		for i := range vals {
			ptrs[i] = &vals[i]
		}
		fmt.Fprintf(h, "T|%s|%d\n", tb, len(cols))
		for rs.Next() {
			if err := rs.Scan(ptrs...); err != nil {
				rs.Close()
				return 0, "", err
			}
			for _, x := range vals {
				switch y := x.(type) {
				case nil:
					h.Write([]byte{0})
				case int64:
					var b [9]byte
					b[0] = 1
					binary.BigEndian.PutUint64(b[1:], uint64(y))
					h.Write(b[:])
				case []byte:
					var b [5]byte
					b[0] = 2
					binary.BigEndian.PutUint32(b[1:], uint32(len(y)))
					h.Write(b[:])
					h.Write(y)
				case string:
					var b [5]byte
					b[0] = 3
					binary.BigEndian.PutUint32(b[1:], uint32(len(y)))
					h.Write(b[:])
					h.Write([]byte(y))
				default:
					fmt.Fprintf(h, "?%v", y)
				}
			}
			h.Write([]byte{'\n'})
		}
		if err := rs.Err(); err != nil {
			rs.Close()
			return 0, "", err
		}
		rs.Close()
	}
	return v, hex.EncodeToString(h.Sum(nil)[:12]), nil
}

// DigestFile opens a database file and returns its digest (used on restored files).
func DigestFile(ctx context.Context, path string) (int64, string, error) {
	db, err := sql.Open("sqlite", fmt.Sprintf("file:%s?_pragma=busy_timeout(1000)", path))
	if err != nil {
		return 0, "", err
	}
	defer db.Close()
	return Digest(ctx, db)
}

func (w *World) recordLedger() error {
	if w.SkipLedger {
		return nil
	}
	v, d, err := Digest(w.ctx, w.ledgerDB)
	if err != nil {
		return fmt.Errorf("ledger: %w", err)
	}
	if old, ok := w.Ledger[v]; ok && old != d {
		return fmt.Errorf("ledger: version %d recorded twice with different digests (harness bug)", v)
	}
	w.Ledger[v] = d
	w.LastV = v
	return nil
}

// ---------------------------------------------------------------- litestream

func errClass(err error) string {
	if err == nil {
		return "ok"
	}
	s := err.Error()
	switch {
	case strings.Contains(s, "database is locked") || strings.Contains(s, "SQLITE_BUSY"):
		return "busy"
	case errors.Is(err, litestream.ErrNoCompaction):
		return "no-compaction"
	case errors.Is(err, litestream.ErrCompactionTooEarly):
		return "too-early"
	case errors.Is(err, context.DeadlineExceeded) || errors.Is(err, context.Canceled):
		return "ctx"
	}
	if len(s) > 60 {
		s = s[:60]
	}
	return "other:" + s
}

// MakeLevels builds the compaction level list for n levels above L0. Intervals
// are 1ns so CompactDB's "too early" guard never depends on test speed.
func MakeLevels(n int) litestream.CompactionLevels {
	lv := litestream.CompactionLevels{{Level: 0}}
	for i := 1; i <= n; i++ {
		lv = append(lv, &litestream.CompactionLevel{Level: i, Interval: time.Nanosecond})
	}
	return lv
}

// Attach creates a new litestream DB object (+Store) for the database and opens it.
func (w *World) Attach() error {
	db := litestream.NewDB(w.DBPath)
	db.MonitorInterval = 0
	db.BusyTimeout = 2 * time.Millisecond
	db.MinCheckpointPageN = w.Cfg.MinCkpt
	db.TruncatePageN = w.Cfg.TruncN
	switch w.Cfg.CkptInterval {
	case 0:
		db.CheckpointInterval = 0
	case 1:
		db.CheckpointInterval = time.Nanosecond
	default:
		db.CheckpointInterval = time.Hour
	}
	frame := int64(w.Cfg.PageSize + 24)
	switch {
	case w.Cfg.MaxSyncFr == 0:
		db.MaxSyncWALBytes = 0
	case w.Cfg.MaxSyncFr < 0:
		db.MaxSyncWALBytes = litestream.DefaultMaxSyncWALBytes
	default:
		db.MaxSyncWALBytes = int64(w.Cfg.MaxSyncFr) * frame
	}
	fc := file.NewReplicaClient(w.ReplicaDir)
	var client litestream.ReplicaClient = fc
	if w.WrapClient != nil {
		client = w.WrapClient(fc)
	}
	r := litestream.NewReplicaWithClient(db, client)
	r.MonitorEnabled = false
	fc.Replica = r
	db.Replica = r
	w.Client = client
	w.Levels = MakeLevels(w.Cfg.Levels)
	st := litestream.NewStore([]*litestream.DB{db}, w.Levels)
	st.CompactionMonitorEnabled = false
	st.L0RetentionCheckInterval = 0
	st.HeartbeatCheckInterval = 0
	st.SnapshotInterval = time.Nanosecond
	st.L0Retention = time.Duration(w.Cfg.L0RetNS)
	db.L0Retention = time.Duration(w.Cfg.L0RetNS)
	st.RetentionEnabled = !w.Cfg.NoRetention
	db.RetentionEnabled = !w.Cfg.NoRetention
	st.VerifyCompaction = w.Cfg.VerifyCompaction
	db.VerifyCompaction = w.Cfg.VerifyCompaction
	db.ShutdownSyncTimeout = time.Duration(w.Cfg.ShutdownMS) * time.Millisecond
	db.ShutdownSyncInterval = time.Millisecond
	db.Logger = slog.Default()
	w.DB, w.Store = db, st
	if err := st.Open(w.ctx); err != nil {
		return err
	}
	if w.Cfg.ViaServer {
		srv := litestream.NewServer(st)
		srv.SocketPath = filepath.Join(w.Dir, "ctl.sock")
		if err := srv.Start(); err != nil {
			return fmt.Errorf("server start: %w", err)
		}
		w.Server = srv
	}
	return nil
}

// Detach closes litestream (Store.Close → DB.Close) and returns its error.
func (w *World) Detach() error {
	if w.Store == nil {
		return nil
	}
	if w.Server != nil {
		_ = w.Server.Close()
		w.Server = nil
	}
	err := w.Store.Close(w.ctx)
	w.Store = nil
	w.DB = nil
	return err
}

// Cleanup closes everything and removes the work directory.
func (w *World) Cleanup() {
	if w.Store != nil {
		_ = w.Detach()
	}
	for i := range w.conns {
		w.closeConn(i)
	}
	if w.ledgerDB != nil {
		_ = w.ledgerDB.Close()
	}
	if w.dbfd != nil {
		_ = w.dbfd.Close()
	}
	_ = os.RemoveAll(w.Dir)
}

func (w *World) syncWaitViaServer() error {
	body, _ := json.Marshal(litestream.SyncRequest{Path: w.DBPath, Wait: true, Timeout: 30})
	hc := &http.Client{Transport: &http.Transport{DialContext: func(ctx context.Context, _, _ string) (net.Conn, error) {
		return net.Dial("unix", w.Server.SocketPath)
	}}}
	defer hc.CloseIdleConnections()
	resp, err := hc.Post("http://unix/sync", "application/json", bytes.NewReader(body))
	if err != nil {
		return err
	}
	defer resp.Body.Close()
	b, _ := io.ReadAll(resp.Body)
	if resp.StatusCode != 200 {
		return fmt.Errorf("sync -wait: http %d: %s", resp.StatusCode, strings.TrimSpace(string(b)))
	}
	return nil
}

// ---------------------------------------------------------------- observations

// ReadWAL returns the current WAL bytes (nil if absent).
func (w *World) ReadWAL() []byte {
	b, err := os.ReadFile(w.DBPath + "-wal")
	if err != nil {
		return nil
	}
	return b
}

func (w *World) observe() {
	b := w.ReadWAL()
	if len(b) >= 32 {
		s := [2]uint32{binary.BigEndian.Uint32(b[16:]), binary.BigEndian.Uint32(b[20:])}
		if w.Obs.lastSalt != ([2]uint32{}) && s != w.Obs.lastSalt {
			w.Obs.WALRestarts++
			w.Obs.WALRestartSinceAck = true
		}
		w.Obs.lastSalt = s
	}
	// committed database size in pages: from the WAL if it has a commit, else the file
	var pages int64
	if d := refwal.Decode(b); d.HeaderOK && d.CommittedFrames() > 0 {
		pages = int64(d.Valid[d.CommittedFrames()-1].Commit)
	} else if fi, err := os.Stat(w.DBPath); err == nil {
		pages = fi.Size() / int64(w.Cfg.PageSize)
	}
	if w.Obs.lastPages > 0 {
		if pages < w.Obs.lastPages {
			w.Obs.shrunk = true
		} else if pages > w.Obs.lastPages && w.Obs.shrunk {
			w.Obs.ShrinkThenGrow = true
		}
	}
	w.Obs.lastPages = pages
}

// SpilledFrames returns the number of valid frames after the last commit frame
// in the live WAL (uncommitted frames physically present).
func (w *World) SpilledFrames() int {
	d := refwal.Decode(w.ReadWAL())
	if !d.HeaderOK {
		return 0
	}
	return d.UncommittedTail()
}

func (w *World) anyWriteTx() bool {
	for _, c := range w.conns {
		if c != nil && c.tx == 2 {
			return true
		}
	}
	return false
}

// AnyTx reports whether any application transaction (read or write) is open.
func (w *World) AnyTx() bool {
	for _, c := range w.conns {
		if c != nil && c.tx != 0 {
			return true
		}
	}
	return false
}

// ---------------------------------------------------------------- steps

func (w *World) tbl(i int) string { return fmt.Sprintf("t%d", i) }

func (w *World) rangeWhere(tb string, a, b int) string {
	return fmt.Sprintf(`id >= (SELECT coalesce(min(id),0) + (coalesce(max(id),0)-coalesce(min(id),0))*%d/100 FROM %s) AND id <= (SELECT coalesce(min(id),0) + (coalesce(max(id),0)-coalesce(min(id),0))*%d/100 FROM %s)`, a, tb, b, tb)
}

func (w *World) sizeOf(class int) int {
	switch class {
	case 0:
		return 10
	case 1:
		return 300
	case 2:
		return w.Cfg.PageSize * 8 / 10
	default:
		return w.Cfg.PageSize * 3
	}
}

// write runs fn inside conn c's open write transaction, or inside a fresh
// BEGIN IMMEDIATE .. version bump .. COMMIT when c has no transaction.
func (w *World) write(ci int, fn func(*sql.Conn) error) StepResult {
	c := w.conns[ci]
	if c == nil || c.tx == 1 {
		w.Obs.AppSkipped++
		return StepResult{Skipped: true}
	}
	if c.tx == 2 {
		if err := fn(c.conn); err != nil {
			w.Obs.AppErrors[errClass(err)]++
			return StepResult{Err: err}
		}
		return StepResult{}
	}
	if _, err := c.conn.ExecContext(w.ctx, `BEGIN IMMEDIATE`); err != nil {
		w.Obs.AppErrors["begin:"+errClass(err)]++
		return StepResult{Err: err, Skipped: true}
	}
	if err := fn(c.conn); err != nil {
		_, _ = c.conn.ExecContext(w.ctx, `ROLLBACK`)
		w.Obs.AppErrors[errClass(err)]++
		return StepResult{Err: err}
	}
	return w.commit(c)
}

func (w *World) commit(c *appConn) StepResult {
	if _, err := c.conn.ExecContext(w.ctx, `UPDATE _v SET v=v+1`); err != nil {
		_, _ = c.conn.ExecContext(w.ctx, `ROLLBACK`)
		c.tx = 0
		w.Obs.AppErrors["bump:"+errClass(err)]++
		return StepResult{Err: err}
	}
	if _, err := c.conn.ExecContext(w.ctx, `COMMIT`); err != nil {
		_, _ = c.conn.ExecContext(w.ctx, `ROLLBACK`)
		c.tx = 0
		w.Obs.AppErrors["commit:"+errClass(err)]++
		return StepResult{Err: err}
	}
	c.tx = 0
	w.Obs.Commits++
	if err := w.recordLedger(); err != nil {
		return StepResult{Err: err}
	}
	return StepResult{}
}

// AppStep executes one application op. It never fails the case: SQL errors are
// classified and returned.
func (w *World) AppStep(o Op) StepResult {
	defer w.observe()
	switch o.K {
	case "insert":
		return w.write(o.C, func(c *sql.Conn) error {
			size := w.sizeOf(o.S)
			n := o.N
			if size*n > 1<<20 {
				n = (1 << 20) / size
				if n < 1 {
					n = 1
				}
			}
			for i := 0; i < n; i++ {
				w.ctr++
				if _, err := c.ExecContext(w.ctx, fmt.Sprintf(`INSERT INTO %s(k,v) VALUES(?,?)`, w.tbl(o.T)), int64(w.ctr), payload(w.ctr, size)); err != nil {
					return err
				}
			}
			return nil
		})
	case "update":
		return w.write(o.C, func(c *sql.Conn) error {
			tb := w.tbl(o.T)
			_, err := c.ExecContext(w.ctx, fmt.Sprintf(`UPDATE %s SET k=k+1, v=CAST(substr(v,2) || substr(v,1,1) AS BLOB) WHERE %s`, tb, w.rangeWhere(tb, o.A, o.B)))
			return err
		})
	case "delete":
		return w.write(o.C, func(c *sql.Conn) error {
			tb := w.tbl(o.T)
			_, err := c.ExecContext(w.ctx, fmt.Sprintf(`DELETE FROM %s WHERE %s`, tb, w.rangeWhere(tb, o.A, o.B)))
			return err
		})
	case "create":
		return w.write(o.C, func(c *sql.Conn) error {
			_, err := c.ExecContext(w.ctx, fmt.Sprintf(`CREATE TABLE IF NOT EXISTS %s (id INTEGER PRIMARY KEY, k INTEGER, v BLOB)`, w.tbl(o.T)))
			return err
		})
	case "drop":
		return w.write(o.C, func(c *sql.Conn) error {
			_, err := c.ExecContext(w.ctx, fmt.Sprintf(`DROP TABLE IF EXISTS %s`, w.tbl(o.T)))
			return err
		})
	case "index":
		return w.write(o.C, func(c *sql.Conn) error {
			_, err := c.ExecContext(w.ctx, fmt.Sprintf(`CREATE INDEX IF NOT EXISTS i%d ON %s(k)`, o.T, w.tbl(o.T)))
			return err
		})
	case "begin":
		c := w.conns[o.C]
		if c == nil || c.tx != 0 {
			w.Obs.AppSkipped++
			return StepResult{Skipped: true}
		}
		if _, err := c.conn.ExecContext(w.ctx, `BEGIN IMMEDIATE`); err != nil {
			w.Obs.AppErrors["begin:"+errClass(err)]++
			return StepResult{Err: err, Skipped: true}
		}
		c.tx = 2
		return StepResult{}
	case "commit":
		c := w.conns[o.C]
		if c == nil || c.tx != 2 {
			w.Obs.AppSkipped++
			return StepResult{Skipped: true}
		}
		return w.commit(c)
	case "rollback":
		c := w.conns[o.C]
		if c == nil || c.tx != 2 {
			w.Obs.AppSkipped++
			return StepResult{Skipped: true}
		}
		if w.SpilledFrames() > 0 {
			w.Obs.RollbackSpilled++
		}
		_, err := c.conn.ExecContext(w.ctx, `ROLLBACK`)
		c.tx = 0
		return StepResult{Err: err}
	case "beginread":
		c := w.conns[o.C]
		if c == nil || c.tx != 0 {
			w.Obs.AppSkipped++
			return StepResult{Skipped: true}
		}
		if _, err := c.conn.ExecContext(w.ctx, `BEGIN`); err != nil {
			return StepResult{Err: err, Skipped: true}
		}
		var n int
		if err := c.conn.QueryRowContext(w.ctx, `SELECT count(*) FROM _v`).Scan(&n); err != nil {
			_, _ = c.conn.ExecContext(w.ctx, `ROLLBACK`)
			return StepResult{Err: err, Skipped: true}
		}
		c.tx = 1
		return StepResult{}
	case "endread":
		c := w.conns[o.C]
		if c == nil || c.tx != 1 {
			w.Obs.AppSkipped++
			return StepResult{Skipped: true}
		}
		_, err := c.conn.ExecContext(w.ctx, `ROLLBACK`)
		c.tx = 0
		return StepResult{Err: err}
	case "openconn":
		if w.conns[o.C] != nil {
			w.Obs.AppSkipped++
			return StepResult{Skipped: true}
		}
		if err := w.openConn(o.C, false); err != nil {
			return StepResult{Err: err}
		}
		// touch the database so the connection really is attached
		var n int
		_ = w.conns[o.C].conn.QueryRowContext(w.ctx, `SELECT count(*) FROM _v`).Scan(&n)
		return StepResult{}
	case "closeconn":
		if w.conns[o.C] == nil || w.conns[o.C].tx != 0 || o.C == 0 {
			w.Obs.AppSkipped++
			return StepResult{Skipped: true}
		}
		w.closeConn(o.C)
		return StepResult{}
	case "vacuum":
		c := w.conns[o.C]
		if c == nil || c.tx != 0 || w.anyWriteTx() {
			w.Obs.AppSkipped++
			return StepResult{Skipped: true}
		}
		_, err := c.conn.ExecContext(w.ctx, `VACUUM`)
		if err != nil {
			w.Obs.AppErrors["vacuum:"+errClass(err)]++
		}
		return StepResult{Err: err}
	case "incvacuum":
		c := w.conns[o.C]
		if c == nil || c.tx != 0 || w.anyWriteTx() {
			w.Obs.AppSkipped++
			return StepResult{Skipped: true}
		}
		_, err := c.conn.ExecContext(w.ctx, fmt.Sprintf(`PRAGMA incremental_vacuum(%d)`, o.N))
		if err != nil {
			w.Obs.AppErrors["incvacuum:"+errClass(err)]++
		}
		return StepResult{Err: err}
	case "appckpt":
		c := w.conns[o.C]
		if c == nil || c.tx != 0 {
			w.Obs.AppSkipped++
			return StepResult{Skipped: true}
		}
		var a, b, d int
		err := c.conn.QueryRowContext(w.ctx, fmt.Sprintf(`PRAGMA wal_checkpoint(%s)`, o.M)).Scan(&a, &b, &d)
		if err != nil {
			w.Obs.AppErrors["appckpt:"+errClass(err)]++
		}
		if w.DB != nil {
			w.Obs.AppCkptWhileOpen++
		}
		return StepResult{Err: err}
	}
	panic("unknown app op " + o.K)
}

// IsLSOp reports whether an op kind is a litestream op.
func IsLSOp(k string) bool {
	switch k {
	case "sync", "rsync", "syncwait", "lsckpt", "compact", "compactdb", "snapshot", "close", "retsnap", "retl0", "rettxid", "storeret":
		return true
	}
	return false
}

// LSStep executes one litestream op.
func (w *World) LSStep(o Op) StepResult {
	defer w.observe()
	if w.DB == nil {
		return StepResult{Skipped: true}
	}
	spilled := w.SpilledFrames() > 0
	pendingChunk := false
	if o.K == "sync" || o.K == "syncwait" {
		if w.Cfg.MaxSyncFr > 0 {
			d := refwal.Decode(w.ReadWAL())
			if d.HeaderOK && d.CommittedFrames() > w.Cfg.MaxSyncFr+1 {
				pendingChunk = true
			}
		}
	}
	var err error
	acking := false
	w.OpCommits, w.OpLateCommits = 0, 0
	if len(o.X) > 0 {
		w.installInterleave(o.X)
		defer w.finishInterleave()
	}
	switch o.K {
	case "sync":
		err = w.DB.Sync(w.ctx)
	case "rsync":
		err = w.DB.Replica.Sync(w.ctx)
	case "syncwait":
		acking = true
		switch {
		case w.Server != nil:
			err = w.syncWaitViaServer()
		case o.M == "store":
			_, err = w.Store.SyncDB(w.ctx, w.DBPath, true)
		default:
			err = w.DB.SyncAndWait(w.ctx)
		}
	case "lsckpt":
		err = w.DB.Checkpoint(w.ctx, o.M)
	case "compact":
		_, err = w.DB.Compact(w.ctx, o.L)
	case "compactdb":
		var lvl *litestream.CompactionLevel
		if o.L == litestream.SnapshotLevel {
			lvl = w.Store.SnapshotLevel()
		} else if lvl, err = w.Levels.Level(o.L); err != nil {
			return StepResult{Skipped: true}
		}
		_, err = w.Store.CompactDB(w.ctx, w.DB, lvl)
	case "snapshot":
		_, err = w.DB.Snapshot(w.ctx)
	case "close":
		acking = true
		err = w.Detach()
	default:
		panic("unknown litestream op " + o.K)
	}
	cls := errClass(err)
	if err != nil {
		w.Obs.LSErrors[o.K+":"+cls]++
	}
	if spilled && (o.K == "sync" || o.K == "syncwait" || o.K == "lsckpt" || o.K == "snapshot" || o.K == "close") {
		w.Obs.SyncWithSpill++
	}
	if pendingChunk && err == nil {
		w.Obs.ChunkedSync++
	}
	res := StepResult{Err: err}
	if acking {
		if err == nil {
			res.Acked = true
			w.Obs.Acks++
			if w.anyWriteTx() {
				w.Obs.AckInOpenTx++
			}
			if spilled {
				w.Obs.AckWithSpill++
			}
		} else {
			w.Obs.AckErrors++
		}
	}
	return res
}

// ---------------------------------------------------------------- replica inspection

// RFile is one file found in a replica (or local meta) directory.
type RFile struct {
	Level int
	Min   ltx.TXID
	Max   ltx.TXID
	Path  string
	Size  int64
	Mod   time.Time
}

// ListLTX lists every LTX-named file under root/ltx/<level>/.
func ListLTX(root string) []RFile {
	var out []RFile
	ents, err := os.ReadDir(filepath.Join(root, "ltx"))
	if err != nil {
		return nil
	}
	for _, e := range ents {
		var lvl int
		if _, err := fmt.Sscanf(e.Name(), "%d", &lvl); err != nil || !e.IsDir() {
			continue
		}
		fs, _ := os.ReadDir(filepath.Join(root, "ltx", e.Name()))
		for _, f := range fs {
			mn, mx, err := ltx.ParseFilename(f.Name())
			if err != nil {
				continue
			}
			fi, err := f.Info()
			if err != nil {
				continue
			}
			out = append(out, RFile{Level: lvl, Min: mn, Max: mx, Path: filepath.Join(root, "ltx", e.Name(), f.Name()), Size: fi.Size(), Mod: fi.ModTime()})
		}
	}
	sort.Slice(out, func(i, j int) bool {
		if out[i].Level != out[j].Level {
			return out[i].Level < out[j].Level
		}
		if out[i].Min != out[j].Min {
			return out[i].Min < out[j].Min
		}
		return out[i].Max < out[j].Max
	})
	return out
}

// MaxL0 returns the highest level-0 MaxTXID present in a replica directory.
func MaxL0(root string) ltx.TXID {
	var m ltx.TXID
	for _, f := range ListLTX(root) {
		if f.Level == 0 && f.Max > m {
			m = f.Max
		}
	}
	return m
}

// RestoreTo restores from the replica directory alone (fresh Replica + file
// client, no DB object) into out.
func RestoreTo(ctx context.Context, replicaDir, out string, txid ltx.TXID, ts time.Time) error {
	r := litestream.NewReplicaWithClient(nil, file.NewReplicaClient(replicaDir))
	opt := litestream.NewRestoreOptions()
	opt.OutputPath = out
	opt.TXID = txid
	opt.Timestamp = ts
	return r.Restore(ctx, opt)
}

// ArchiveL0 copies level-0 files that appeared on the replica into the archive
// directory (never deleted by litestream) for the re-composition oracle.
func (w *World) ArchiveL0() {
	_ = os.MkdirAll(w.ArchiveDir, 0o755)
	files := ListLTX(w.ReplicaDir)
	// local level-0 files (the very files that get uploaded) are archived too: a snapshot or compaction may
	// cover TXIDs whose level-0 file has not been uploaded yet
	files = append(files, ListLTX(filepath.Join(filepath.Dir(w.DBPath), "."+filepath.Base(w.DBPath)+"-litestream"))...)
	for _, f := range files {
		if f.Level != 0 {
			continue
		}
		dst := filepath.Join(w.ArchiveDir, filepath.Base(f.Path))
		if _, err := os.Stat(dst); err == nil {
			continue
		}
		b, err := os.ReadFile(f.Path)
		if err != nil {
			continue
		}
		_ = os.WriteFile(dst, b, 0o644)
		_ = os.Chtimes(dst, f.Mod, f.Mod)
	}
}

// TraceState renders the WAL and replica state for debugging output.
func (w *World) TraceState() string {
	b := w.ReadWAL()
	d := refwal.Decode(b)
	s := fmt.Sprintf("wal=%dB", len(b))
	if d.HeaderOK {
		s += fmt.Sprintf(" salt=%08x frames(valid=%d committed=%d total=%d)", d.Salt1, len(d.Valid), d.CommittedFrames(), d.TotalFrames)
	}
	if fi, err := os.Stat(w.DBPath); err == nil {
		s += fmt.Sprintf(" dbpages=%d", fi.Size()/int64(w.Cfg.PageSize))
	}
	if w.DB != nil {
		if pos, err := w.DB.Pos(); err == nil {
			s += fmt.Sprintf(" pos=%d", pos.TXID)
		}
	}
	s += " replica="
	for _, f := range ListLTX(w.ReplicaDir) {
		s += fmt.Sprintf("L%d:%d-%d ", f.Level, f.Min, f.Max)
	}
	s += fmt.Sprintf("L0max=%d", MaxL0(w.ReplicaDir))
	return s
}

// LedgerDB returns the harness's read connection to the source database.
func (w *World) LedgerDB() *sql.DB { return w.ledgerDB }

// Ctx returns the world's context.
func (w *World) Ctx() context.Context { return w.ctx }

// ---------------------------------------------------------------- disturbance helpers (C04)

// MetaDir returns litestream's local state directory for the database.
func (w *World) MetaDir() string {
	return filepath.Join(filepath.Dir(w.DBPath), "."+filepath.Base(w.DBPath)+"-litestream")
}

// Disable stops replication of the same DB object (the IPC "stop" path).
func (w *World) Disable() error { return w.Store.DisableDB(w.ctx, w.DBPath) }

// Enable restarts replication of the same DB object (the IPC "start" path).
func (w *World) Enable() error { return w.Store.EnableDB(w.ctx, w.DBPath) }

// CloseAllApp closes every application connection including the ledger
// connection (SQLite then checkpoints and deletes the WAL if nobody else has
// the database open) and the harness's persistent descriptor.
func (w *World) CloseAllApp() {
	for i := range w.conns {
		w.closeConn(i)
	}
	if w.ledgerDB != nil {
		_ = w.ledgerDB.Close()
		w.ledgerDB = nil
	}
	if w.dbfd != nil {
		_ = w.dbfd.Close()
		w.dbfd = nil
	}
}

// ReopenApp reopens connection 0, the ledger connection and the descriptor.
func (w *World) ReopenApp() error {
	if err := w.reopenFD(); err != nil {
		return err
	}
	if w.conns[0] == nil {
		if err := w.openConn(0, false); err != nil {
			return err
		}
		if _, err := w.conns[0].conn.ExecContext(w.ctx, `PRAGMA journal_mode=WAL`); err != nil {
			return err
		}
	}
	if w.ledgerDB == nil {
		if err := w.openLedger(); err != nil {
			return err
		}
	}
	return nil
}

// ColdRestart models a stop of everything: litestream is closed (if attached), then every application connection
// (the last one to close makes SQLite checkpoint and delete the WAL). With lsFirst, litestream is started again and
// syncs before the application opens its first connection. The caller resets its generator model (only connection 0
// is open afterwards).
func (w *World) ColdRestart(withLS, lsFirst bool) error {
	if withLS && w.DB != nil {
		_ = w.Detach()
	}
	w.CloseAllApp()
	if withLS && lsFirst {
		if err := w.reopenFD(); err != nil {
			return err
		}
		if err := w.Attach(); err != nil {
			return err
		}
		w.LSStep(Op{K: "sync"})
	}
	if err := w.ReopenApp(); err != nil {
		return err
	}
	if withLS && !lsFirst {
		if err := w.Attach(); err != nil {
			return err
		}
	}
	return nil
}

// SavedCopy is a checkpointed image of the database at some earlier instant.
type SavedCopy struct {
	Image []byte
	V     int64
}

// SaveCopy records the current committed state as a stand-alone database image.
func (w *World) SaveCopy() (*SavedCopy, error) {
	ref, err := w.TakeReference()
	if err != nil {
		return nil, err
	}
	return &SavedCopy{Image: ref.Image, V: ref.V}, nil
}

// ReplaceDB overwrites the database file with the given image (all connections
// of this process must be closed; litestream must be detached or disabled),
// removes -wal/-shm, reopens the application and moves the version stamp into a
// fresh range so later commits stay unique in the ledger.
func (w *World) ReplaceDB(image []byte) error {
	w.CloseAllApp()
	if err := os.WriteFile(w.DBPath, image, 0o644); err != nil {
		return err
	}
	_ = os.Remove(w.DBPath + "-wal")
	_ = os.Remove(w.DBPath + "-shm")
	if err := w.ReopenApp(); err != nil {
		return err
	}
	var maxV int64
	for v := range w.Ledger {
		if v > maxV {
			maxV = v
		}
	}
	c := w.conns[0]
	for _, q := range []string{`BEGIN IMMEDIATE`, fmt.Sprintf(`UPDATE _v SET v=%d`, maxV+1000), `COMMIT`} {
		if _, err := c.conn.ExecContext(w.ctx, q); err != nil {
			return fmt.Errorf("%s: %w", q, err)
		}
	}
	w.Obs.Commits++
	return w.recordLedger()
}

// WALFrames returns the number of valid frames in the live WAL generation and its salt.
func (w *World) WALFrames() (int, uint32) {
	d := refwal.Decode(w.ReadWAL())
	if !d.HeaderOK {
		return 0, 0
	}
	return len(d.Valid), d.Salt1
}

// ReadDB returns the bytes of the live database file through the persistent descriptor.
func (w *World) ReadDB() ([]byte, error) { return w.readAllFD() }

// Exec runs raw SQL on application connection 0 (no version stamp, no ledger entry).
func (w *World) Exec(q string, args ...any) error {
	_, err := w.conns[0].conn.ExecContext(w.ctx, q, args...)
	return err
}

// QueryInt runs a single-value integer query on application connection 0.
func (w *World) QueryInt(q string) (int64, error) {
	var n int64
	err := w.conns[0].conn.QueryRowContext(w.ctx, q).Scan(&n)
	return n, err
}
