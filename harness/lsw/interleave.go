//go:build verif

package lsw

import (
	"time"

	litestream "github.com/benbjohnson/litestream"
)

// Interleavings: a litestream op may carry nested entries Op{K:"at", M:phase, N:occurrence, X:[app ops]}.
// While the op runs, the harness-owned phase hook (litestream.VerifPhaseHook, verif build tag) fires synchronously at
// the named pipeline points and executes the nested application ops there, so the schedule "application commits /
// holds the write lock / opens a reader exactly between litestream's steps X and Y" is chosen by the generator,
// replayed exactly and shrunk like any other part of the case.

// Phases lists the hook points litestream reports (the sync diagnostics phases plus five explicit points).
var Phases = []string{
	"ensure_wal", "verify_and_sync", "stat_wal", "verify", "sync_open_ltx", "sync_page_map", "sync_prepare_ltx",
	"write_ltx_from_db", "write_ltx_from_wal", "close_ltx", "fsync_ltx", "rename_ltx", "sync_complete",
	"checkpoint_if_needed", "checkpoint_lock", "checkpoint_read_wal_header", "checkpoint_copy_before", "checkpoint_passive_barrier", "checkpoint_exec",
	"checkpoint_bump_seq", "checkpoint_verify_restart", "checkpoint_snapshot_boundary_lock", "checkpoint_snapshot_boundary",
	"snapshot_position", "snapshot_encode", "close_release",
}

type pendingAt struct {
	phase string
	occ   int
	ops   []Op
	fired bool
}

func (w *World) installInterleave(xs []Op) {
	w.pend = nil
	w.phaseCount = map[string]int{}
	w.OpCommits, w.OpLateCommits = 0, 0
	for _, x := range xs {
		if x.K != "at" {
			continue
		}
		w.pend = append(w.pend, &pendingAt{phase: x.M, occ: x.N, ops: x.X})
	}
	if len(w.pend) > 0 {
		litestream.VerifPhaseHook = w.phaseHook
	}
}

func (w *World) runPending(p *pendingAt, late bool) {
	p.fired = true
	before := w.Obs.Commits
	for _, o := range p.ops {
		if o.K == "bg" {
			if !late {
				w.spawnBG(o)
			}
			continue
		}
		if o.K == "ls" {
			// a litestream call made synchronously from inside the hook (only at points where the hooked operation holds
			// neither the executor nor an exclusive lock the call needs: between a snapshot's position and its reader)
			if !late && w.DB != nil {
				switch o.M {
				case "sync":
					_ = w.DB.Sync(w.ctx)
				case "checkpoint":
					_ = w.DB.Checkpoint(w.ctx, o.S2())
				}
				w.Obs.LSInHook++
			}
			continue
		}
		r := w.AppStep(o)
		if (o.K == "vacuum" || o.K == "incvacuum") && r.Err == nil && !r.Skipped {
			w.Obs.Commits++ // rewrites pages without changing the logical state: still a commit the running call may or may not cover
		}
	}
	if late {
		w.Obs.HookLate++
		w.OpLateCommits += w.Obs.Commits - before
		return
	}
	w.Obs.HookFired++
	if w.PhasesFired == nil {
		w.PhasesFired = map[string]int{}
	}
	w.PhasesFired[p.phase]++
	if w.Obs.Commits > before {
		w.Obs.HookCommits++
		w.OpCommits += w.Obs.Commits - before
	}
	if w.anyWriteTx() {
		w.Obs.HookLockHeld++
	}
}

func (w *World) phaseHook(db *litestream.DB, phase string) {
	if db != w.DB || w.inHook {
		return
	}
	w.inHook = true
	defer func() { w.inHook = false }()
	w.phaseCount[phase]++
	n := w.phaseCount[phase]
	for _, p := range w.pend {
		if p.fired || p.phase != phase {
			continue
		}
		if (p.occ <= 1 && n == 1) || p.occ == n {
			w.runPending(p, false)
		}
	}
}

// spawnBG starts a litestream call on its own goroutine from inside a phase hook, i.e. while the hooked operation
// holds whatever it holds at that point, and gives it a few milliseconds to reach the lock it will queue on. The call
// completes after the hooked operation moves on; finishInterleave waits for it. If the goroutine is slow to start the
// call simply runs later, which is an ordinary sequential schedule.
func (w *World) spawnBG(o Op) {
	done := make(chan struct{})
	w.bg = append(w.bg, done)
	db, ctx := w.DB, w.ctx
	go func() {
		defer close(done)
		switch o.M {
		case "snapshot":
			_, _ = db.Snapshot(ctx)
		case "sync":
			_ = db.Sync(ctx)
		case "checkpoint":
			_ = db.Checkpoint(ctx, "PASSIVE")
		}
	}()
	time.Sleep(3 * time.Millisecond)
	w.Obs.BGSpawned++
}

// finishInterleave removes the hook and executes the entries whose phase never fired, so the application history is
// the same set of ops whatever path litestream took.
func (w *World) finishInterleave() {
	litestream.VerifPhaseHook = nil
	for _, ch := range w.bg {
		<-ch
	}
	w.bg = nil
	for _, p := range w.pend {
		if !p.fired {
			w.runPending(p, true)
		}
	}
	w.pend = nil
}
