// Package core is the small runtime shared by every property check: case
// (de)serialisation, statistics for the evidence file, replay files, and the
// known-findings filter.
//
// A property is a pair (generate, execute). generate draws a JSON-serialisable
// case from rapid; execute runs it against the litestream code in /repo and
// returns a Result. Nothing in here draws randomness or reads the clock for a
// decision.
package core

import (
	"bufio"
	"crypto/sha256"
	"encoding/hex"
	"encoding/json"
	"fmt"
	"os"
	"path/filepath"
	"runtime/debug"
	"sort"
	"strconv"
	"strings"
	"sync"
	"testing"

	"pgregory.net/rapid"
)

// Violation describes a failed oracle.
type Violation struct {
	Oracle string   `json:"oracle"`          // which oracle failed (stable identifier)
	Msg    string   `json:"msg"`             // human readable detail
	Shapes []string `json:"shapes,omitempty"` // known-finding shape keys that hold for this case AND this oracle
}

func (v *Violation) Error() string { return v.Oracle + ": " + v.Msg }

// Result is what executing one case yields.
type Result struct {
	Violation  *Violation
	Labels     []string // class labels, aggregated into a histogram
	NonTrivial bool     // by the property's stated rule
	Key        string   // canonical form used for distinct counting ("" = hash of the case)
	Evals      int      // oracle evaluations inside this case (0 means 1)
	Sample     any      // compact description for the evidence samples (nil = the case)
	Notes      map[string]int
}

type statLine struct {
	K  string         `json:"k"`
	NT bool           `json:"nt"`
	L  []string       `json:"l,omitempty"`
	Ex []string       `json:"ex,omitempty"`
	Ev int            `json:"ev"`
	S  any            `json:"s,omitempty"`
	N  map[string]int `json:"n,omitempty"`
	V  string         `json:"v,omitempty"`
}

var (
	statsMu   sync.Mutex
	statsW    *bufio.Writer
	statsF    *os.File
	statsN    int
	knownOnce sync.Once
	known     map[string]map[string]bool // property -> key -> listed
)

// Tier returns "quick" or "thorough".
func Tier() string {
	if t := os.Getenv("VERIF_TIER"); t != "" {
		return t
	}
	return "quick"
}

// Thorough reports whether the thorough tier is running.
func Thorough() bool { return Tier() == "thorough" }

// EnvInt reads an integer environment variable.
func EnvInt(name string, def int) int {
	if s := os.Getenv(name); s != "" {
		if n, err := strconv.Atoi(s); err == nil {
			return n
		}
	}
	return def
}

func openStats() {
	if statsW != nil {
		return
	}
	p := os.Getenv("VERIF_STATS")
	if p == "" {
		return
	}
	f, err := os.OpenFile(p, os.O_CREATE|os.O_WRONLY|os.O_APPEND, 0o644)
	if err != nil {
		return
	}
	statsF = f
	statsW = bufio.NewWriterSize(f, 1<<16)
}

// FlushStats flushes the statistics file.
func FlushStats() {
	statsMu.Lock()
	defer statsMu.Unlock()
	if statsW != nil {
		_ = statsW.Flush()
	}
}

func writeStat(l statLine) {
	statsMu.Lock()
	defer statsMu.Unlock()
	openStats()
	if statsW == nil {
		return
	}
	statsN++
	// keep every 25th sample (and the first 3) in full; the driver picks a few.
	if !(statsN <= 3 || statsN%25 == 0) {
		l.S = nil
	}
	b, err := json.Marshal(l)
	if err != nil {
		return
	}
	_, _ = statsW.Write(b)
	_ = statsW.WriteByte('\n')
	if statsN%50 == 0 {
		_ = statsW.Flush()
	}
}

// Known returns the set of listed known-finding keys for a property.
func Known(prop string) map[string]bool {
	knownOnce.Do(func() {
		known = map[string]map[string]bool{}
		p := os.Getenv("VERIF_KNOWN")
		if p == "" {
			p = "/verif/known_findings.txt"
		}
		f, err := os.Open(p)
		if err != nil {
			return
		}
		defer f.Close()
		sc := bufio.NewScanner(f)
		for sc.Scan() {
			line := strings.TrimSpace(sc.Text())
			if !strings.HasPrefix(line, "finding:") {
				continue // "fixed:" lines and comments suppress nothing
			}
			var prop, key string
			for _, tok := range strings.Fields(line) {
				if strings.HasPrefix(tok, "property=") {
					prop = strings.TrimPrefix(tok, "property=")
				} else if strings.HasPrefix(tok, "key=") {
					key = strings.TrimPrefix(tok, "key=")
				}
			}
			if prop != "" && key != "" {
				if known[prop] == nil {
					known[prop] = map[string]bool{}
				}
				known[prop][key] = true
			}
		}
	})
	return known[prop]
}

// HashJSON returns a short hash of the JSON form of v.
func HashJSON(v any) string {
	b, _ := json.Marshal(v)
	h := sha256.Sum256(b)
	return hex.EncodeToString(h[:8])
}

// HashStrings returns a short hash of the given strings.
func HashStrings(parts ...string) string {
	h := sha256.New()
	for _, p := range parts {
		h.Write([]byte(p))
		h.Write([]byte{0})
	}
	return hex.EncodeToString(h.Sum(nil)[:8])
}

// ReplayFile is the on-disk form of a case.
type ReplayFile struct {
	Property  string          `json:"property"`
	Case      json.RawMessage `json:"case"`
	Violation *Violation      `json:"violation,omitempty"`
	Note      string          `json:"note,omitempty"`
}

type propEntry struct {
	id   string
	exec func(raw json.RawMessage) (Result, error)
}

var registry = map[string]propEntry{}

// Register makes a property's executor available to TestReplay.
func Register[C any](id string, exec func(c C) Result) {
	registry[id] = propEntry{id: id, exec: func(raw json.RawMessage) (Result, error) {
		var c C
		if err := json.Unmarshal(raw, &c); err != nil {
			return Result{}, err
		}
		return SafeExec(exec, c), nil
	}}
}

// SafeExec runs exec and converts a panic into a violation ("harness or code
// under test panicked") carrying the stack, so it is attributed to its case.
func SafeExec[C any](exec func(c C) Result, c C) (res Result) {
	defer func() {
		if r := recover(); r != nil {
			res.Violation = &Violation{Oracle: "panic", Msg: fmt.Sprintf("%v\n%s", r, debug.Stack())}
		}
	}()
	return exec(c)
}

func saveReplay(id string, c any, v *Violation) string {
	dir := os.Getenv("VERIF_REPLAY_DIR")
	if dir == "" {
		dir = "/verif/.build/replay"
	}
	_ = os.MkdirAll(dir, 0o755)
	raw, _ := json.Marshal(c)
	rf := ReplayFile{Property: id, Case: raw, Violation: v}
	b, _ := json.MarshalIndent(rf, "", " ")
	shard := os.Getenv("VERIF_SHARD")
	if shard == "" {
		shard = "0"
	}
	p := filepath.Join(dir, fmt.Sprintf("%s-shard%s.json", id, shard))
	_ = os.WriteFile(p, b, 0o644)
	return p
}

// filterKnown splits a violation into (still a violation?, excluded keys).
func filterKnown(id string, v *Violation) (*Violation, []string) {
	if v == nil {
		return nil, nil
	}
	k := Known(id)
	var ex []string
	for _, s := range v.Shapes {
		if k[s] {
			ex = append(ex, s)
		}
	}
	if len(ex) > 0 {
		sort.Strings(ex)
		return nil, ex
	}
	return v, nil
}

// Record writes the statistics line for one executed case and applies the
// known-findings filter. It returns the violation that remains (nil if none or
// if it was attributed to a listed finding).
func Record(id string, c any, res Result) *Violation {
	v, ex := filterKnown(id, res.Violation)
	key := res.Key
	if key == "" {
		key = HashJSON(c)
	}
	ev := res.Evals
	if ev <= 0 {
		ev = 1
	}
	s := res.Sample
	if s == nil {
		s = c
	}
	line := statLine{K: key, NT: res.NonTrivial, L: res.Labels, Ex: ex, Ev: ev, S: s, N: res.Notes}
	if v != nil {
		line.V = v.Oracle
	}
	writeStat(line)
	return v
}

// Check is the body of every rapid property test.
func Check[C any](t *testing.T, id string, gen func(*rapid.T) C, exec func(C) Result) {
	Register(id, exec)
	defer FlushStats()
	rapid.Check(t, func(rt *rapid.T) {
		c := gen(rt)
		res := SafeExec(exec, c)
		if v := Record(id, c, res); v != nil {
			p := saveReplay(id, c, v)
			FlushStats()
			rt.Fatalf("VIOLATION-CANDIDATE property=%s oracle=%s replay=%s\n%s", id, v.Oracle, p, v.Msg)
		}
	})
}

// RunOne executes one explicit case outside rapid (fixed scenarios,
// enumerations) with the same recording and known-finding handling.
func RunOne[C any](t *testing.T, id string, c C, exec func(C) Result) bool {
	res := SafeExec(exec, c)
	if v := Record(id, c, res); v != nil {
		p := saveReplay(id, c, v)
		FlushStats()
		t.Errorf("VIOLATION-CANDIDATE property=%s oracle=%s replay=%s\n%s", id, v.Oracle, p, v.Msg)
		return false
	}
	return true
}

// Replay runs the file named by VERIF_REPLAY through the registered executor.
// Output protocol (parsed by the driver):
//
//	REPLAY-RESULT property=<id> status=pass|fail|known oracle=<o> shapes=<a,b>
func Replay(t *testing.T) {
	p := os.Getenv("VERIF_REPLAY")
	if p == "" {
		t.Skip("VERIF_REPLAY not set")
	}
	b, err := os.ReadFile(p)
	if err != nil {
		t.Fatalf("read replay: %v", err)
	}
	var rf ReplayFile
	if err := json.Unmarshal(b, &rf); err != nil {
		t.Fatalf("parse replay: %v", err)
	}
	e, ok := registry[rf.Property]
	if !ok {
		t.Fatalf("no executor registered for %s", rf.Property)
	}
	res, err := e.exec(rf.Case)
	if err != nil {
		t.Fatalf("decode case: %v", err)
	}
	if res.Violation == nil {
		fmt.Printf("REPLAY-RESULT property=%s status=pass\n", rf.Property)
		return
	}
	v, ex := filterKnown(rf.Property, res.Violation)
	if v == nil {
		fmt.Printf("REPLAY-RESULT property=%s status=known oracle=%s shapes=%s\n", rf.Property, res.Violation.Oracle, strings.Join(ex, ","))
		fmt.Printf("REPLAY-DETAIL %s\n", strings.ReplaceAll(res.Violation.Msg, "\n", " | "))
		return
	}
	fmt.Printf("REPLAY-RESULT property=%s status=fail oracle=%s shapes=%s\n", rf.Property, v.Oracle, strings.Join(v.Shapes, ","))
	fmt.Printf("REPLAY-DETAIL %s\n", strings.ReplaceAll(v.Msg, "\n", " | "))
	t.Fail()
}

// WorkDir returns a fresh scratch directory for one case. tmpfs is preferred
// because litestream fsyncs every file and directory it publishes.
func WorkDir(prefix string) string {
	base := os.Getenv("VERIF_WORK")
	if base == "" {
		if st, err := os.Stat("/dev/shm"); err == nil && st.IsDir() {
			base = "/dev/shm/verif-work"
		} else {
			base = "/verif/.build/work"
		}
	}
	_ = os.MkdirAll(base, 0o755)
	d, err := os.MkdirTemp(base, prefix+"-")
	if err != nil {
		panic(err)
	}
	return d
}
