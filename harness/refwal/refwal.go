// Package refwal is an independent decoder for SQLite WAL files (R3), written
// from https://sqlite.org/fileformat2.html section 4 and sqlite3's wal.c
// recovery rules, not from litestream's wal_reader.go.
package refwal

import (
	"encoding/binary"
)

const (
	HeaderSize      = 32
	FrameHeaderSize = 24
	MagicLE         = 0x377f0682
	MagicBE         = 0x377f0683
)

// Frame describes one frame of the valid prefix.
type Frame struct {
	Index  int    // 0-based frame index
	Offset int64  // byte offset of the frame header in the file
	Pgno   uint32 // page number
	Commit uint32 // database size after commit, 0 if not a commit frame
}

// WAL is the decoded view of a WAL byte string.
type WAL struct {
	HeaderOK  bool
	BigEndian bool // checksum byte order
	PageSize  uint32
	Seq       uint32
	Salt1     uint32
	Salt2     uint32
	Valid     []Frame // frames of the valid prefix (salt + cumulative checksum ok)
	// TotalFrames is the number of complete frame slots in the file (valid or not).
	TotalFrames int
}

func checksum(be bool, s0, s1 uint32, b []byte) (uint32, uint32) {
	for i := 0; i+8 <= len(b); i += 8 {
		var x0, x1 uint32
		if be {
			x0 = binary.BigEndian.Uint32(b[i:])
			x1 = binary.BigEndian.Uint32(b[i+4:])
		} else {
			x0 = binary.LittleEndian.Uint32(b[i:])
			x1 = binary.LittleEndian.Uint32(b[i+4:])
		}
		s0 += x0 + s1
		s1 += x1 + s0
	}
	return s0, s1
}

// Checksum exposes the WAL checksum step for harness-side re-encoding.
func Checksum(be bool, s0, s1 uint32, b []byte) (uint32, uint32) { return checksum(be, s0, s1, b) }

// Decode parses b. A WAL whose header is invalid has HeaderOK=false and no frames.
func Decode(b []byte) *WAL {
	w := &WAL{}
	if len(b) < HeaderSize {
		return w
	}
	magic := binary.BigEndian.Uint32(b[0:])
	switch magic {
	case MagicLE:
		w.BigEndian = false
	case MagicBE:
		w.BigEndian = true
	default:
		return w
	}
	if binary.BigEndian.Uint32(b[4:]) != 3007000 {
		return w
	}
	ps := binary.BigEndian.Uint32(b[8:])
	if ps < 512 || ps > 65536 || ps&(ps-1) != 0 {
		return w
	}
	c0, c1 := checksum(w.BigEndian, 0, 0, b[:24])
	if c0 != binary.BigEndian.Uint32(b[24:]) || c1 != binary.BigEndian.Uint32(b[28:]) {
		return w
	}
	w.HeaderOK = true
	w.PageSize = ps
	w.Seq = binary.BigEndian.Uint32(b[12:])
	w.Salt1 = binary.BigEndian.Uint32(b[16:])
	w.Salt2 = binary.BigEndian.Uint32(b[20:])
	fs := int64(FrameHeaderSize) + int64(ps)
	w.TotalFrames = int((int64(len(b)) - HeaderSize) / fs)
	s0, s1 := c0, c1
	for i := 0; i < w.TotalFrames; i++ {
		off := int64(HeaderSize) + int64(i)*fs
		h := b[off : off+FrameHeaderSize]
		pgno := binary.BigEndian.Uint32(h[0:])
		commit := binary.BigEndian.Uint32(h[4:])
		if binary.BigEndian.Uint32(h[8:]) != w.Salt1 || binary.BigEndian.Uint32(h[12:]) != w.Salt2 {
			break
		}
		if pgno == 0 {
			break
		}
		s0, s1 = checksum(w.BigEndian, s0, s1, h[:8])
		s0, s1 = checksum(w.BigEndian, s0, s1, b[off+FrameHeaderSize:off+fs])
		if s0 != binary.BigEndian.Uint32(h[16:]) || s1 != binary.BigEndian.Uint32(h[20:]) {
			break
		}
		w.Valid = append(w.Valid, Frame{Index: i, Offset: off, Pgno: pgno, Commit: commit})
	}
	return w
}

// FrameSize returns header+page size in bytes.
func (w *WAL) FrameSize() int64 { return FrameHeaderSize + int64(w.PageSize) }

// CommittedFrames returns the number of valid frames up to and including the
// last commit frame (SQLite's mxFrame after recovery).
func (w *WAL) CommittedFrames() int {
	n := 0
	for i, f := range w.Valid {
		if f.Commit != 0 {
			n = i + 1
		}
	}
	return n
}

// UncommittedTail returns how many valid frames follow the last commit frame.
func (w *WAL) UncommittedTail() int { return len(w.Valid) - w.CommittedFrames() }

// View is what a reader of the WAL must see: latest committed frame per page.
type View struct {
	Pages     map[uint32]int64 // pgno -> frame offset
	Commit    uint32           // db size in pages after the last included commit (0 = nothing committed)
	EndOffset int64            // end of the last included commit frame (0 if none)
	Limited   bool
}

// ViewFrom computes the committed view of frames with index >= start,
// stopping at the first commit frame at which (bytes consumed since start) >=
// maxBytes when maxBytes > 0. Pages above the final commit are dropped.
func (w *WAL) ViewFrom(start int, maxBytes int64) View {
	v := View{Pages: map[uint32]int64{}}
	if !w.HeaderOK {
		return v
	}
	tx := map[uint32]int64{}
	fs := w.FrameSize()
	startOff := int64(HeaderSize) + int64(start)*fs
	for _, f := range w.Valid {
		if f.Index < start {
			continue
		}
		tx[f.Pgno] = f.Offset
		if f.Commit != 0 {
			for p, o := range tx {
				v.Pages[p] = o
			}
			tx = map[uint32]int64{}
			v.Commit = f.Commit
			v.EndOffset = f.Offset + fs
			if maxBytes > 0 && v.EndOffset-startOff >= maxBytes {
				v.Limited = true
				break
			}
		}
	}
	for p := range v.Pages {
		if p > v.Commit {
			delete(v.Pages, p)
		}
	}
	return v
}
