#!/usr/bin/env python3
"""Regenerates /verif/MANIFEST.json from checks_config.py (PROPS + MANIFEST_META)."""
import json, os, sys
ROOT = os.path.dirname(os.path.dirname(os.path.abspath(__file__)))
sys.path.insert(0, ROOT)
from checks_config import PROPS, MANIFEST_META  # noqa

all_ids = [json.loads(l)["id"] for l in open(os.path.join(ROOT, "properties.jsonl"))]
checks = []
for pid in all_ids:
    if pid not in PROPS or pid in MANIFEST_META.get("not_applicable", {}):
        continue
    cfg = PROPS[pid]
    meta = cfg["manifest"]
    checks.append({
        "property_id": pid,
        "quick_cmd": "./check %s quick" % pid,
        "thorough_cmd": "./check %s thorough" % pid,
        "evidence_file": "evidence/%s.json" % pid,
        "replay_cmd_template": "./check --replay {path}",
        "engine": "rapid-harness",
        "level_claimed": {"category": cfg["level"], "text": meta["text"], "design_ref": "DESIGN.md §4 " + pid},
        "level_note": meta["note"],
        "technique": meta["technique"],
    })
na = [{"property_id": k, "reason": v} for k, v in MANIFEST_META.get("not_applicable", {}).items()]
for pid in all_ids:
    if pid not in PROPS and pid not in MANIFEST_META.get("not_applicable", {}):
        na.append({"property_id": pid, "reason": MANIFEST_META["pending_reason"]})
m = {
    "version": 1,
    "setup_cmd": "./check --build",
    "hooks": MANIFEST_META["hooks"],
    "engines": [{"name": "rapid-harness", "path": "harness/", "serves_properties": [c["property_id"] for c in checks],
                 "kind_free_text": "Go property-based tests (pgregory.net/rapid v1.3.0, native go fuzzing in thorough tiers) over generated cases / histories / schedules / fault plans with explicit oracles; python driver ./check shards runs, confirms failures from their replay file, aggregates evidence"}],
    "checks": checks,
    "not_applicable": na,
    "notes": MANIFEST_META["notes"],
}
json.dump(m, open(os.path.join(ROOT, "MANIFEST.json"), "w"), indent=1)
print("checks:", [c["property_id"] for c in checks], "not_applicable:", [n["property_id"] for n in na])
