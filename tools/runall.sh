#!/bin/bash
# usage: tools/runall.sh <quick|thorough> [ids...]  — runs checks sequentially, prints id, exit code, wall time
root="$(cd "$(dirname "$0")/.." && pwd)"
tier="${1:-quick}"; shift
ids="$@"
if [ -z "$ids" ]; then ids=$(python3 -c "import json;print(' '.join(c['property_id'] for c in json.load(open('$root/MANIFEST.json'))['checks']))"); fi
for id in $ids; do
  s=$(date +%s)
  out=$(cd "$root" && ./check $id $tier 2>&1); rc=$?
  e=$(date +%s)
  echo "$id rc=$rc wall=$((e-s))s $(echo "$out" | grep -E '^SUMMARY' | sed 's/SUMMARY property=[A-Z0-9]* //')"
  echo "$out" | grep -E "^VIOLATION|^INCONCLUSIVE|BUILD-FAILED" | head -5
done
