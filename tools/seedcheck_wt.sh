#!/bin/bash
# usage: tools/seedcheck_wt.sh <seedname> <checkID> <seed-worktree> [tier]
# Like seedcheck.sh, but leaves /repo alone: the check runs from a scratch git worktree of /verif (own .build, evidence,
# replay) against the scratch worktree of benbjohnson/litestream that carries the seeded change (VERIF_REPO), so several
# seeds can be examined at the same time. The outcome is appended to /verif/seeded/<seedname>/results.txt and up to two
# replay files are kept under seeded/<seedname>/caught/. The scratch /verif worktree is removed afterwards.
set -u
seed="$1"; cid="$2"; wt="$3"; tier="${4:-quick}"
vw=/tmp/vw/$seed-$cid
rm -rf "$vw"; git -C /verif worktree prune
git -C /verif worktree add -q --detach "$vw" HEAD || exit 3
cd "$vw"
t0=$(date +%s)
out=$(VERIF_REPO="$wt" ./check $cid $tier 2>&1); rc=$?
t1=$(date +%s)
n=0
for f in $(ls replay/$cid 2>/dev/null); do
  n=$((n+1))
  if [ $n -le 2 ]; then mkdir -p /verif/seeded/$seed/caught; cp replay/$cid/$f /verif/seeded/$seed/caught/$cid-$f; fi
done
viol=$(echo "$out" | grep -c '^VIOLATION')
sum=$(echo "$out" | grep '^SUMMARY' | tail -1)
verdict=missed; [ $rc = 1 ] && [ $viol -gt 0 ] && verdict=caught; [ $rc = 2 ] && verdict=inconclusive; [ $rc -gt 2 ] && verdict=error
echo "$(date -u +%FT%TZ) check=$cid tier=$tier seed=${VERIF_SEED:-1} rc=$rc verdict=$verdict violations=$viol wall=$((t1-t0))s (scratch worktrees: verif $(git -C /verif rev-parse --short HEAD), repo $wt) | $sum" | tee -a /verif/seeded/$seed/results.txt
echo "$out" | grep -E '^VIOLATION|INCONCLUSIVE' | head -3
echo "$out" > /tmp/vw/$seed-$cid.log
cd /verif; git -C /verif worktree remove --force "$vw"
