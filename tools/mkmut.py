#!/usr/bin/env python3
"""mkmut.py <out.diff> <file> : reads OLD\\n====\\nNEW from stdin, applies to /repo/<file>, writes git diff, reverts."""
import subprocess, sys
out, f = sys.argv[1], sys.argv[2]
old, new = sys.stdin.read().split("\n====\n")
new = new.rstrip("\n") if not old.endswith("\n") else new
p = "/repo/" + f
s = open(p).read()
assert s.count(old) == 1, "old text occurs %d times" % s.count(old)
open(p, "w").write(s.replace(old, new))
d = subprocess.run(["git", "-C", "/repo", "diff"], capture_output=True, text=True).stdout
open(out, "w").write(d)
subprocess.run(["git", "-C", "/repo", "checkout", "--", "."])
print("wrote", out, len(d), "bytes")
