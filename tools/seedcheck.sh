#!/bin/bash
# usage: tools/seedcheck.sh <seedname> <checkID> [tier]   — applies /verif/seeded/<seedname>/patch.diff to /repo,
# runs ./check <checkID> <tier>, reverts /repo, moves the replay files the run produced into seeded/<seedname>/ and
# appends the outcome to seeded/<seedname>/results.txt
set -u
seed="$1"; cid="$2"; tier="${3:-quick}"
cd /verif
before=$(ls replay/$cid 2>/dev/null | sort)
t0=$(date +%s)
out=$(tools/withpatch.sh /verif/seeded/$seed/patch.diff ./check $cid $tier 2>&1); rc=$?
t1=$(date +%s)
after=$(ls replay/$cid 2>/dev/null | sort)
new=$(comm -13 <(echo "$before") <(echo "$after"))
n=0
for f in $new; do
  n=$((n+1))
  if [ $n -le 2 ]; then mkdir -p seeded/$seed/caught; mv replay/$cid/$f seeded/$seed/caught/$cid-$f; else rm -f replay/$cid/$f; fi
done
rmdir replay/$cid 2>/dev/null
viol=$(echo "$out" | grep -c '^VIOLATION')
sum=$(echo "$out" | grep '^SUMMARY' | tail -1)
verdict=missed; [ $rc = 1 ] && [ $viol -gt 0 ] && verdict=caught; [ $rc = 2 ] && verdict=inconclusive; [ $rc = 3 ] && verdict=patch-error
echo "$(date -u +%FT%TZ) check=$cid tier=$tier seed=${VERIF_SEED:-1} rc=$rc verdict=$verdict violations=$viol wall=$((t1-t0))s | $sum" | tee -a seeded/$seed/results.txt
echo "$out" | grep -E '^VIOLATION|INCONCLUSIVE' | head -3
