#!/bin/bash
# Confirms a seeded change produced in a scratch worktree (never /repo):
#   usage: [SEED_PREFIX=TestSeedA_] [SEED_TAGS=vfs] tools/seedverify.sh <ID> [worktree] [outdir]
#   1. resets tracked files of the worktree, applies <outdir>/patch.diff (must touch no *_test.go)
#   2. go build ./... ; runs the demonstration (untracked *_test.go left by the author) -> must FAIL
#   3. runs the pinned suite (guard off) in the worktree, compares with BASELINE stable_pass -> missing must be 0
#   4. reverts the patch; demonstration must PASS
# Prints one line "SEEDVERIFY <ID> build=.. demo_with=.. suite_missing=.. demo_without=.. verdict=.."
set -u
id="$1"; wt="${2:-/tmp/seed/$id}"; out="${3:-/tmp/seed/$id-out}"
export GOFLAGS=-mod=mod GOPROXY=off
log="$out/verify.log"; : > "$log"
cd "$wt" || exit 3
git checkout -q -- . || exit 3
if grep -E '^\+\+\+ b/.*_test\.go' "$out/patch.diff" >/dev/null; then echo "SEEDVERIFY $id verdict=reject reason=patch-touches-tests"; exit 1; fi
git apply "$out/patch.diff" || { echo "SEEDVERIFY $id verdict=reject reason=patch-does-not-apply"; exit 1; }
demos=$(git status --short | awk '$1=="??"{print $2}')
echo "untracked: $demos" >> "$log"
# demo test names: every Test func in untracked *_test.go files
names=""; pkgs=""
for f in $demos; do
  for g in $(find "$f" -name '*_test.go' 2>/dev/null); do
    n=$(grep -hoE '^func (Test[A-Za-z0-9_]+)' "$g" | awk '{print $2}' | grep -E "^${SEED_PREFIX:-Test}" | paste -sd'|')
    [ -n "$n" ] && names="${names:+$names|}$n" && pkgs="$pkgs ./$(dirname "$g")"
  done
done
pkgs=$(echo $pkgs | tr ' ' '\n' | sort -u | paste -sd' ')
echo "demo tests: $names in $pkgs" >> "$log"
[ -z "$names" ] && { echo "SEEDVERIFY $id verdict=reject reason=no-demo-tests"; exit 1; }
b=ok; go build ./... >> "$log" 2>&1 || b=fail
tags="${SEED_TAGS:-}"
dw=pass; go test ${tags:+-tags $tags} -vet=off -count=1 -timeout 10m -run "^($names)\$" $pkgs >> "$log" 2>&1 || dw=fail
# pinned suite with the change (skip the demo tests)
go test -json -vet=off -count=1 -timeout 25m -skip "^($names)\$" ./... > "$out/suite.json" 2>>"$log"
miss=$(python3 - "$out/suite.json" <<'PY'
import json,sys
passed=set()
for line in open(sys.argv[1]):
    try: d=json.loads(line)
    except Exception: continue
    if d.get("Action")=="pass" and d.get("Test"): passed.add(d["Package"]+"::"+d["Test"])
b=json.load(open("/root/.vp/BASELINE.json"))
missing=sorted(t for t in b["stable_pass"] if t not in passed)
print(len(missing), ",".join(missing[:8]))
PY
)
rm -f "$out/suite.json"
# tests missing from the pass set are re-run on their own (several are timing-sensitive when the machine is busy)
mc=${miss%% *}
if [ "$mc" != 0 ] && [ "$mc" -le 8 ]; then
  still=""
  for t in $(echo "${miss#* }" | tr ',' ' '); do
    pkg=${t%%::*}; name=${t##*::}; rel="./${pkg#github.com/benbjohnson/litestream}"; rel=${rel%/}; [ "$rel" = "." ] || rel="./${rel#.//}"
    [ "$pkg" = "github.com/benbjohnson/litestream" ] && rel="."
    pat=$(echo "$name" | sed 's#/#$/^#g')
    ok=0
    for k in 1 2 3; do
      if go test -json -vet=off -count=1 -timeout 10m -run "^$pat\$" "$rel" 2>>"$log" | grep -q "\"Action\":\"pass\",.*\"Test\":\"$name\""; then ok=1; break; fi
    done
    [ $ok = 1 ] || still="$still,$t"
  done
  if [ -z "$still" ]; then miss="0 (after re-running ${miss#* } alone)"; else miss="$(echo "$still" | tr ',' '\n' | grep -c .) ${still#,}"; fi
fi
git apply -R "$out/patch.diff"
dwo=pass; go test ${tags:+-tags $tags} -vet=off -count=1 -timeout 10m -run "^($names)\$" $pkgs >> "$log" 2>&1 || dwo=fail
git apply "$out/patch.diff"
v=reject
mc=${miss%% *}
[ "$b" = ok ] && [ "$dw" = fail ] && [ "$dwo" = pass ] && [ "$mc" = 0 ] && v=keep
echo "SEEDVERIFY $id build=$b demo_with=$dw suite_missing=$miss demo_without=$dwo verdict=$v"
