#!/bin/bash
# Runs the repository's pinned test suite with the verif guard OFF and compares with /root/.vp/BASELINE.json.
# usage: tools/baseline.sh [pkg-pattern]   (default ./...)
set -u
cd /repo
export GOFLAGS=-mod=mod GOPROXY=off
pat="${1:-./...}"
out=/verif/.build/baseline.json
mkdir -p /verif/.build
go test -json -vet=off -count=1 -timeout 25m $pat > "$out" 2>/verif/.build/baseline.err
python3 - "$out" <<'PY'
import json,sys
passed=set(); failed=set()
for line in open(sys.argv[1]):
    try: d=json.loads(line)
    except Exception: continue
    if d.get("Action") in ("pass","fail") and d.get("Test"):
        (passed if d["Action"]=="pass" else failed).add(d["Package"]+"::"+d["Test"])
b=json.load(open("/root/.vp/BASELINE.json"))
stable=set(b["stable_pass"])
pk={t.split("::")[0] for t in passed|failed}
missing=sorted(t for t in stable if t.split("::")[0] in pk and t not in passed)
print("passed=%d failed=%d stable_in_scope=%d missing_from_pass=%d" % (len(passed),len(failed),len([t for t in stable if t.split('::')[0] in pk]),len(missing)))
for t in missing[:40]: print("MISSING", t)
sys.exit(1 if missing else 0)
PY
rc=$?
git -C /repo status --short | head
exit $rc
