#!/bin/bash
# usage: tools/seedstore.sh <ID> [name]  — stores a confirmed seeded change under /verif/seeded/<name>/
set -eu
id="$1"; name="${2:-$id}"; out="${3:-/tmp/seed/$id-out}"; wt="${4:-/tmp/seed/$id}"; dst="/verif/seeded/$name"
grep -q "verdict=keep" "$out/verify.out" || { echo "not confirmed: $(cat $out/verify.out)"; exit 1; }
mkdir -p "$dst"
cp "$out/patch.diff" "$dst/patch.diff"
if [ -d "$out/demo" ]; then cp -r "$out/demo" "$dst/demo"; fi
[ -f "$out/demo_test.go" ] && cp "$out/demo_test.go" "$dst/demo_test.go.txt"
python3 - "$id" "$out" "$dst" "$wt" <<'PY'
import json,sys,subprocess
id,out,dst,wt=sys.argv[1:5]
try: m=json.load(open(out+"/meta.json"))
except Exception as e: m={"property":id,"meta_parse_error":str(e)}
base=subprocess.run(["git","-C",wt,"rev-parse","--short","HEAD"],capture_output=True,text=True).stdout.strip()
keep={"property":id,"summary":m.get("summary"),"needs":m.get("needs"),"files_changed":m.get("files_changed"),
 "author":"sub-agent given only the property text and a scratch worktree","author_commands":m.get("commands_run"),
 "base_commit":base,
 "confirmed_by":"tools/seedverify.sh "+id+" (scratch worktree "+wt+": reset tracked files, git apply patch.diff, go build ./..., demonstration test must FAIL, pinned suite `go test -json -vet=off -count=1 ./...` compared with BASELINE stable_pass must miss nothing (timing-sensitive tests re-run alone), git apply -R, demonstration must PASS)",
 "confirmation":open(out+"/verify.out").read().strip(),
 "demonstration":"demo_test.go.txt (place as zz_seed_demo_test.go in the package named by its package clause / see author_commands)"}
json.dump(keep,open(dst+"/meta.json","w"),indent=1)
PY
echo stored $dst
