#!/bin/bash
# usage: withpatch.sh <patch.diff> <command...>  — apply a patch to /repo, run the command, always revert.
set -u
patch="$1"; shift
if ! git -C /repo diff --quiet; then echo "/repo is dirty, refusing" >&2; exit 3; fi
git -C /repo apply "$patch" || { echo "patch does not apply" >&2; exit 3; }
"$@"; rc=$?
git -C /repo checkout -- . ; git -C /repo clean -fdq -- . 2>/dev/null
exit $rc
