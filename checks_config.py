"""Per-property configuration for ./check: which test binary, which runs, budgets."""

BINARIES = {
    # plain: everything that needs neither the race detector nor the vfs tag
    "props": {"pkg": "./props", "tags": "verif"},
}

PROPS = {
    "C08": {
        "binary": "props",
        "level": "exploration",
        "rule": ("random sets of <=14 files (level in {0,1,2,9}, rarely 3/8; 1<=min<=max<=N<=10; snapshots have min=1; "
                 "createdAt on a 6-instant grid; no two files with one name) x target in {latest, TXID 1..N+1, time on "
                 "the grid and its midpoints}; the thorough tier additionally enumerates ALL 2^21 subsets of the 21 "
                 "possible files for N=3 x targets {latest,1,2,3,4}. Non-trivial = the set contains two overlapping "
                 "files of one level, a range duplicated at two levels, or a gap at one level bridged by another; "
                 "distinct = hash of (file set, target)."),
        "assumptions": ["the in-memory client lists files exactly like file.ReplicaClient.LTXFiles (sorted slice iterator, seek filters on MinTXID)",
                        "brute-force reachability oracle shares no code with CalcRestorePlan"],
        "runs": [
            {"name": "random", "test": "TestProp_C08", "kind": "rapid", "checks_quick": 200000, "checks_thorough": 5000000},
            {"name": "enumN3", "test": "TestEnum_C08", "kind": "plain", "tiers": ["thorough"], "env": {"VERIF_ENUM": "1", "VERIF_ENUM_N": "3"}},
        ],
        "exhaustive_thorough": False,
    },
    "C01": {
        "binary": "props",
        "level": "exploration",
        "rule": ("histories of 8-40 steps (80 in thorough) over the application grammar (insert/update-in-place/delete/DDL/"
                 "VACUUM/incremental_vacuum, multi-statement transactions with rollback on up to 3 connections, long readers, "
                 "app checkpoints of all 4 modes) interleaved at statement granularity with litestream Sync/Replica.Sync/"
                 "SyncAndWait (direct, via Store.SyncDB, or via Server+unix socket)/Checkpoint(mode)/Snapshot/Compact/Close, x "
                 "page size x auto_vacuum x cache size x thresholds; R1 page oracle after every acknowledged step. Non-trivial = "
                 "before an acknowledged step the history had a WAL restart since the previous ack, a shrink followed by growth, "
                 "an app checkpoint while litestream was running, an ack inside an open app transaction, an ack with spilled "
                 "uncommitted frames in the WAL, or a chunked sync; distinct = hash of (config, abstracted op sequence)."),
        "assumptions": ["file replica client only", "litestream's background monitors are off; the harness is the only caller (schedules at statement granularity)",
                        "reference image = SQLite's own recovery+checkpoint of a copy of (db, db-wal)"],
        "runs": [
            {"name": "histories", "test": "TestProp_C01", "kind": "rapid", "checks_quick": 600, "checks_thorough": 20000, "shards": 6},
        ],
    },
}
