"""Per-property configuration for ./check: which test binary, which runs, budgets."""

BINARIES = {
    # plain: everything that needs neither the race detector nor the vfs tag
    "props": {"pkg": "./props", "tags": "verif", "extra": [{"pkg": "./cmd/lsdriver", "out": "lsdriver"}]},
    # C12 runs under the race detector
    "propsrace": {"pkg": "./props", "tags": "verif", "flags": ["-race"]},
    # C18 needs the vfs build tag, cgo and the mattn driver linked in (sqlite3vfs symbols)
    "propsvfs": {"pkg": "./propsvfs", "tags": "verif,vfs", "env": {"CGO_ENABLED": "1"}},
}

MANIFEST_META = {
    "hooks": {
        "guard": "verif",
        "enable": "go test -c -tags verif in /verif/harness (module verifharness, replace github.com/benbjohnson/litestream => /repo)",
        "baseline_off_cmd": "/verif/tools/baseline.sh",
        "source_commits": ["18eadf4", "6fb4a7e", "c6fb1fc", "0835903", "8688370", "092b54f"],
        "add_only": True,
    },
    "not_applicable": {},
    "pending_reason": "check not built yet in this session (see DESIGN.md section 4 for the planned generated-input check); not claimed until it runs silently on the unchanged tree",
    "notes": "Hook commits in /repo: 18eadf4 (WALReader.VerifPageMap), 6fb4a7e (VFSFile.VerifPoll), c6fb1fc (verifPhase: phase hook points in the sync/checkpoint/snapshot/close pipeline; an empty function without the verif tag), 0835903 (one more hook point before the PASSIVE checkpoint barrier), 8688370 (hook point between a snapshot's position and its reader), 092b54f (verifVFSPhase: two hook points in the VFS background hydration and VFSFile.VerifHydration, vfs build tag only). Genuine defects found by the checks were repaired with separate fix: commits in /repo (listed as fixed: lines in known_findings.txt); defects recorded rather than repaired are the finding: lines there. See DESIGN.md sections 9-12.",
}

PROPS = {
    "C08": {
        "manifest": {
            "text": "random file sets x targets checked in both directions (a returned plan is a valid chain ending where requested; an error is justified by brute-force reachability); thorough adds exhaustive enumeration of all 2^21 file sets for N=3",
            "note": "in-memory ReplicaClient mirrors file.ReplicaClient's listing order; the reachability oracle shares no code with CalcRestorePlan",
            "technique": "property-based testing (rapid) against a brute-force reference model; bounded exhaustive enumeration",
        },
        "binary": "props",
        "level": "exploration",
        "rule": ("random sets of <=14 files (level in {0,1,2,9}, rarely 3/8; 1<=min<=max<=N<=10; snapshots have min=1; "
                 "createdAt on a 6-instant grid; no two files with one name) x target in {latest, TXID 1..N+1, time on "
                 "the grid and its midpoints}; the thorough tier additionally enumerates ALL 2^21 subsets of the 21 "
                 "possible files for N=3 x targets {latest,1,2,3,4}. Non-trivial = the set contains two overlapping "
                 "files of one level, a range duplicated at two levels, or a gap at one level bridged by another; "
                 "distinct = hash of (file set, target)."),
        "assumptions": ["the in-memory client lists files exactly like file.ReplicaClient.LTXFiles (sorted slice iterator, seek filters on MinTXID)",
                        "brute-force reachability oracle shares no code with CalcRestorePlan"],
        "runs": [
            {"name": "random", "test": "TestProp_C08", "kind": "rapid", "checks_quick": 200000, "checks_thorough": 5000000},
            {"name": "enumN3", "test": "TestEnum_C08", "kind": "plain", "tiers": ["thorough"], "env": {"VERIF_ENUM": "1", "VERIF_ENUM_N": "3"}},
        ],
        "exhaustive_thorough": False,
    },
    "C01": {
        "manifest": {
            "text": "generated application x litestream histories; after every acknowledged round the restore is compared page-for-page with SQLite's own recovery of a copy of (db, wal), plus integrity_check and logical digest",
            "note": "file replica only; monitors off (statement-granularity schedules owned by the harness); reference image built without litestream code",
            "technique": "stateful property-based testing (rapid) with an independent page-level oracle",
        },
        "binary": "props",
        "level": "exploration",
        "rule": ("histories of 8-40 steps (80 in thorough) over the application grammar (insert/update-in-place/delete/DDL/"
                 "VACUUM/incremental_vacuum, multi-statement transactions with rollback on up to 3 connections, long readers, "
                 "app checkpoints of all 4 modes) interleaved at statement granularity with litestream Sync/Replica.Sync/"
                 "SyncAndWait (direct, via Store.SyncDB, or via Server+unix socket)/Checkpoint(mode)/Snapshot/Compact/Close, x "
                 "page size x auto_vacuum x cache size x thresholds; R1 page oracle after every acknowledged step. Non-trivial = "
                 "before an acknowledged step the history had a WAL restart since the previous ack, a shrink followed by growth, "
                 "an app checkpoint while litestream was running, an ack inside an open app transaction, an ack with spilled "
                 "uncommitted frames in the WAL, or a chunked sync; distinct = hash of (config, abstracted op sequence). The second run "
                 "(interleaved) attaches to litestream operations 1-3 entries (phase, occurrence, application ops) executed by the harness "
                 "inside litestream's own pipeline through the verif phase hook (24 hook points from verify to the checkpoint boundary "
                 "snapshot and Close's lock release): commits between the sealed sync and the checkpoint, write locks held while litestream "
                 "bumps its sequence row or takes its boundary lock, readers, app checkpoints; plus checkpoint episodes built from these. An "
                 "acknowledgement during which the application committed is checked against the window of states committed before/while the "
                 "call ran (logical digest + integrity_check), every other one with the page oracle. There, non-trivial also = an application "
                 "transaction committed or took the write lock inside a hook."),
        "assumptions": ["file replica client only", "litestream's background monitors are off; the harness is the only caller (schedules at statement granularity)",
                        "reference image = SQLite's own recovery+checkpoint of a copy of (db, db-wal)"],
        "runs": [
            {"name": "histories", "test": "TestProp_C01", "kind": "rapid", "checks_quick": 600, "checks_thorough": 1000, "shards": 6},
            {"name": "interleaved", "test": "TestProp_C01I", "kind": "rapid", "checks_quick": 400, "checks_thorough": 1000, "shards": 6},
        ],
    },
    "C02": {
        "manifest": {
            "text": "generated histories with litestream operations scheduled inside open/rolled-back spilled transactions; every TXID at every level is restored and matched against a ledger of committed states; snapshots compared with level-0-only restores",
            "note": "statement-granularity schedules; ledger digests read through SQLite from the source after each commit",
            "technique": "stateful property-based testing (rapid) with a version-stamped logical ledger as reference model",
        },
        "binary": "props",
        "level": "exploration",
        "rule": ("C01-style histories biased to multi-statement transactions on a 5-page cache (uncommitted frames spill into the WAL), "
                 "rollbacks after spilling, litestream Sync/SyncAndWait/Checkpoint/Snapshot/Compact scheduled between the statements "
                 "of an open transaction, MaxSyncWALBytes of 1 or 3 frames; at 3 points of each history every TXID present at any "
                 "level of the replica is restored and compared with the ledger of committed states (version stamp -> digest). "
                 "Non-trivial = a litestream sync/checkpoint/snapshot ran while uncommitted frames were physically in the WAL, or a "
                 "rollback happened after frames had spilled; distinct = hash of (config, abstracted op sequence)."
                 " Half of the histories begin with a generated cold start (base content checkpointed, in-place updates, a long reader, a partial PASSIVE backfill) before litestream's first sync; a quarter of the litestream ops carry application ops (and, between a snapshot's position and its reader, synchronous litestream sync/checkpoint calls) executed inside litestream's pipeline through the verif phase hook."),
        "assumptions": ["schedules are enumerated at statement granularity (the granularity at which SQLite makes frames visible); preemptive concurrency is C12's",
                        "file replica client only"],
        "runs": [
            {"name": "histories", "test": "TestProp_C02", "kind": "rapid", "checks_quick": 400, "checks_thorough": 1200, "shards": 6},
        ],
    },
    "C20": {
        "manifest": {
            "text": "generated client programs and request-level schedules against an in-memory conditional-write store; mutual-exclusion, fencing and generation invariants over the linearised history; thorough enumerates all interleavings of short programs",
            "note": "store is linearisable; TTLs are +-1h so wall-clock never decides; known finding release-resets-generation excluded by shape",
            "technique": "property-based testing (rapid) with a harness-owned scheduler; bounded exhaustive schedule enumeration",
        },
        "binary": "props",
        "level": "exploration",
        "rule": ("2-3 s3.Leaser clients with generated programs of 2-6 ops over {acquire, renew(last lease), release(last lease)} x TTL in "
                 "{+1h live, -1h already expired} sharing one in-memory S3 with conditional-write semantics; a generated schedule of 64 "
                 "choices releases exactly one parked storage request at a time; invariants M1-M4 over the linearised history. The thorough "
                 "tier additionally enumerates EVERY interleaving of 2 clients x all programs of length <=2. Non-trivial = another "
                 "client's request landed between the read and the conditional write of an acquire; distinct = hash of (programs, schedule)."),
        "assumptions": ["the store is linearisable (real S3 anomalies are not modelled)", "TTL only takes +-1h so time.Now() inside the leaser never decides an outcome"],
        "runs": [
            {"name": "schedules", "test": "TestProp_C20", "kind": "rapid", "checks_quick": 100000, "checks_thorough": 3000000},
            {"name": "enum2x2", "test": "TestEnum_C20", "kind": "plain", "tiers": ["thorough"], "env": {"VERIF_ENUM": "1", "VERIF_ENUM_LEN": "2"}},
        ],
    },
    "C09": {
        "manifest": {
            "text": "real SQLite WALs x structured mutations (truncation, bit flips, frame dup/swap, stale-generation tails, salt edits, commit-field edits with recomputed checksums, byte-order re-encoding) x entry point (full / resume from a committed offset / byte budget); WALReader results compared with an independent decoder that is itself validated against real SQLite recovery; thorough adds a native coverage-guided fuzz campaign",
            "note": "reference decoder written from the SQLite file-format document; commit-field edits keep SQLite's invariant commit >= pgno of the commit frame; recomputed checksums never legitimise an invalid header (see DESIGN section 6)",
            "technique": "property-based testing (rapid) + native go fuzzing, differential against an independent reference decoder",
        },
        "binary": "props",
        "level": "exploration",
        "rule": ("corpus of 35 real WALs (page sizes 512/1024/4096/8192/65536; shapes: several commits, checkpoint+restart with a stale tail of the "
                 "previous generation, spilled uncommitted tail, after rollback, grow-shrink, grow-shrink-grow) x 0-3 mutations x call in "
                 "{PageMap from the header, NewWALReaderWithOffset at a committed boundary of the valid prefix, pageMap with a byte budget "
                 "from {1B, 1..5 frames, total+-1 frame, frame+-1B}}; ReadFrame is additionally compared frame by frame. Non-trivial = the "
                 "input has >=1 committed frame and >=1 rejected frame or trailing garbage; distinct = hash of (mutated prefix, length, call, offsets)."),
        "assumptions": ["mutations named in the property only; frames with page number 0 or impossible page sizes but valid checksums are not generated"],
        "runs": [
            {"name": "corpus-identity", "test": "TestCorpus_C09", "kind": "plain", "shards": 1},
            {"name": "mutations", "test": "TestProp_C09", "kind": "rapid", "checks_quick": 60000, "checks_thorough": 600000},
            {"name": "nativefuzz", "test": "FuzzC09", "kind": "fuzz", "tiers": ["thorough"], "shards": 1, "fuzztime_thorough": "600s", "cwd": "harness/props", "timeout_thorough": 1200},
        ],
    },
    "C13": {
        "manifest": {
            "text": "generated write/sync histories under every threshold configuration followed by 5-15 idle sync rounds; frames of the live WAL generation counted by the independent decoder after every successful sync; level-0 file counts per idle round",
            "note": "premise enforced by construction (no application transaction or reader open at sync time); 'small constant' instantiated as 3 files, silence required from idle round 4 on; two configuration-edge findings excluded by shape",
            "technique": "stateful property-based testing (rapid) with an invariant over the history",
        },
        "binary": "props",
        "level": "exploration",
        "rule": ("histories of 6-30 steps of application writes (all op kinds except application checkpoints) and litestream Sync/SyncAndWait with every "
                 "open transaction closed before each sync, x (MinCheckpointPageN in {1,2,5,20,1000}, TruncatePageN in {0,3,10,50}, CheckpointInterval in "
                 "{0,1ns,1h}, MaxSyncWALBytes in {0,1,3 frames,64MiB}), then one catch-up sync and k in 5..15 idle Sync+Replica.Sync rounds. "
                 "Non-trivial = the write phase crossed the lowest threshold at least once and the idle phase started with a non-empty WAL; "
                 "distinct = hash of (config, abstracted ops, k)."),
        "assumptions": ["monitors off: the harness issues the syncs", "CheckpointInterval only takes values whose outcome is independent of test speed"],
        "runs": [
            {"name": "histories", "test": "TestProp_C13", "kind": "rapid", "checks_quick": 500, "checks_thorough": 3000, "shards": 6},
        ],
    },
    "C14": {
        "manifest": {
            "text": "the same deterministic application history executed in lockstep with and without litestream (checkpoints of every mode, snapshots, compaction, close/re-attach scheduled between statements); statement outcomes, logical dump, schema delta, lock-table emptiness, integrity_check and journal mode compared",
            "note": "application statements contain no randomness or time; logical comparison (page layout is C01's business)",
            "technique": "differential property-based testing (rapid) against a litestream-free control run",
        },
        "binary": "props",
        "level": "exploration",
        "rule": ("paired histories of 8-36 steps (same generator as C01 plus re-attach) executed on database A (litestream attached) and control B; "
                 "comparison after every application statement (outcome class) and at 4 points (digest of all user rows and schema, sqlite_master "
                 "delta = exactly the two bookkeeping tables, _litestream_lock empty, integrity_check, journal_mode). Non-trivial = at least one "
                 "litestream checkpoint ran including a PASSIVE one (barrier transaction rolled back); distinct = hash of (config, abstracted ops)."
                 ' Includes cold restarts (litestream and every application connection closed - the WAL is deleted - then started again, litestream first or second) and syncs/checkpoints during which the local staging of the next LTX files fails.'),
        "assumptions": ["busy results of application RESTART/TRUNCATE checkpoints may differ (documented effect of litestream's read lock) and are not compared"],
        "runs": [
            {"name": "paired-histories", "test": "TestProp_C14", "kind": "rapid", "checks_quick": 400, "checks_thorough": 1500, "shards": 6},
        ],
    },
    "C06": {
        "manifest": {
            "text": "generated write/sync/compact/snapshot histories over 1-8 level layouts; every file created at level >=1 is decoded and compared (page set, page images, commit, TXID range, timestamp, file time) with a naive sequential re-composition of the archived level-0 files; per-level contiguity; restores of sampled TXIDs compared before/after each compaction and against level-0-only restores",
            "note": "no storage faults, no retention (level-0 files archived by the harness); re-composer uses only the ltx decoder, not ltx.Compactor",
            "technique": "stateful property-based testing (rapid) with an independent re-composition oracle and metamorphic restore equality",
        },
        "binary": "props",
        "level": "exploration",
        "rule": ("histories of 10-40 steps (70 thorough) over {application ops incl. shrink/VACUUM and application checkpoints, SyncAndWait, "
                 "Compact(l) for every configured l, Store.CompactDB(l|snapshot), Snapshot, litestream checkpoints} x level layouts of 1..8 "
                 "levels. Non-trivial = a compaction whose input range contains a shrink, an in-chain full snapshot, or >=2 files at a level >=2; "
                 "distinct = hash of (config, abstracted ops)."
                 ' A third of the histories continue with a compaction ladder (rounds of 1-3 level-1 compactions followed by the higher levels in order).'),
        "assumptions": ["file replica client only"],
        "runs": [
            {"name": "histories", "test": "TestProp_C06", "kind": "rapid", "checks_quick": 400, "checks_thorough": 1200, "shards": 6},
        ],
    },
    "C07": {
        "manifest": {
            "text": "C06 histories plus retention passes (snapshot retention by age directly and through Store with cascade, level-0 retention by time, retention by TXID) with file ages placed around the thresholds and deletion enabled or delegated; after each pass: no deletion when disabled, a snapshot remains, level-0 survivors contiguous up to the newest, latest TXID reachable by brute-force planning, and the latest restore equals the source page for page",
            "note": "file ages are set with Chtimes at +-1h/seconds-apart positions so outcomes do not depend on test speed; EnforceRetentionByTXID is called with the precondition its caller establishes (floor = MaxTXID of an existing snapshot, levels >= 1)",
            "technique": "stateful property-based testing (rapid) with invariants over the replica listing plus the R1 page oracle",
        },
        "binary": "props",
        "level": "exploration",
        "rule": ("C06 histories with retention passes: each pass first re-ages every replica file (all 3h old / newest third recent / arbitrary) and then runs "
                 "one of EnforceSnapshotRetention(ts), Store.EnforceSnapshotRetention (cascade), EnforceL0RetentionByTime, EnforceRetentionByTXID, "
                 "Compact(1); RetentionEnabled in {true,false}, L0Retention in {1ns,1h}. Non-trivial = a pass deleted at least one file; distinct = "
                 "hash of (config, abstracted ops)."),
        "assumptions": ["file replica client only"],
        "runs": [
            {"name": "histories", "test": "TestProp_C07", "kind": "rapid", "checks_quick": 400, "checks_thorough": 1500, "shards": 6},
        ],
    },
    "C15": {
        "manifest": {
            "text": "generated histories with compaction, snapshots and level-0 retention; recorded replication time of every TXID taken from the archived level-0 headers; Restore(Timestamp=T) for T at, 1ms around and between those times compared with the ledger state of the TXID selected by the recorded times (never newer; exact when all level-0 files are present; error before the first backup; monotone in T; plan uses no file created at or after T)",
            "note": "precondition checked per case: recorded times non-decreasing (sandbox clock does not step); 1 in 4 cases goes through CalcRestoreTarget first like the CLI",
            "technique": "stateful property-based testing (rapid) with a ledger reference model indexed by recorded replication times",
        },
        "binary": "props",
        "level": "exploration",
        "rule": ("C06 histories with a 2ms sleep before each acknowledged sync, with/without compaction, snapshots and level-0 retention (L0Retention 1ns "
                 "via Compact(1)); up to 14 targets T per history drawn from {ts(n)-1ms, ts(n), ts(n)+1ms, midpoints, before first, after last}. "
                 "Non-trivial = T falls strictly inside the TXID range of a compacted file that is present, or equals some ts(n) exactly; "
                 "distinct = hash of (config, abstracted ops, target picks)."
                 ' A quarter of the acknowledged syncs have a Snapshot request started on its own goroutine from inside a phase hook (it queues on the executor while the sync creates the next TXID).'),
        "assumptions": ["file replica client: CreatedAt is the file mtime set from the LTX header timestamp"],
        "runs": [
            {"name": "histories", "test": "TestProp_C15", "kind": "rapid", "checks_quick": 300, "checks_thorough": 1200, "shards": 6},
        ],
    },
    "C04": {
        "manifest": {
            "text": "C01 histories plus disturbance episodes (process restart = new DB object, IPC stop/start = same object, run-time reset of local state) with generated application activity while litestream is down: writes, in-place updates, checkpoints of every mode, WAL restart shorter/equal/longer than the old cursor, closing the last connection, replacing the database by an older copy or by a restore of an earlier TXID, deleting the meta directory; after the first acknowledged sync following each episode: R1 page oracle, replica position = database position, pre-episode replica files unchanged",
            "note": "crash (kill) episodes are C03's; shape keys use harness-side observations only (who was down, missed commits, salts, lengths of WAL generations)",
            "technique": "stateful property-based testing (rapid) with fault episodes and an independent page-level oracle",
        },
        "binary": "props",
        "level": "exploration",
        "rule": ("C01 histories with 1-2 (thorough: up to 4) disturbance episodes; each episode = {restart, reopen, reset-runtime} x a down-time sub-history of 1-6 ops over "
                 "{application writes incl. in-place updates, walrestart(mode, relation to old cursor, in-place or insert), closeall, replace-old, replace-restore, "
                 "rm-meta, reset-offline}. Non-trivial = an episode missed at least one commit that modified an existing page; distinct = hash of (config, abstracted ops)."
                 " A fifth of the disturbances are multi-restart sequences (2-3 checkpoint+write rounds, short generations rewriting different rows); after a restart the storage may fail litestream's first 1-3 client calls; after the last disturbance a bounded recovery check requires an acknowledged sync within three attempts on a quiet database."),
        "assumptions": ["file replica client only", "litestream never runs concurrently with the down-time sub-history (that is what 'down' means)"],
        "runs": [
            {"name": "histories", "test": "TestProp_C04", "kind": "rapid", "checks_quick": 500, "checks_thorough": 2000, "shards": 6},
        ],
    },
    "C05": {
        "manifest": {
            "text": "C07-style histories (sync, upload, compaction, snapshot, retention, close) with the file client wrapped by a fault injector that consults a generated per-call plan {ok, fail-before, fail-after-effect, partially consumed upload, iterator error, reader error}; after every client call the level-0 sequence of the underlying directory must be gapless; every acknowledgement must be backed by stored files (position equality + R1); mid-history restores must give a committed state; after a fault-free suffix the replica catches up (R1)",
            "note": "faults are injected at the public ReplicaClient interface; reader faults are kept rare because each costs the code's own 250ms+ back-off; close-before-init finding shared with C01",
            "technique": "stateful property-based testing (rapid) with generated fault plans and invariants checked after every storage call",
        },
        "binary": "props",
        "level": "exploration",
        "rule": ("C07 histories x a fault plan of 8-40 entries (cycled over the ReplicaClient calls, fault density 5-40%) followed by a fault-free suffix of 3 "
                 "write+SyncAndWait rounds. Non-trivial = an upload failed after taking effect or was only partially consumed, and a later round was "
                 "acknowledged; distinct = hash of (config, abstracted ops, plan)."
                 ' A third of the cases end with a compaction ladder (several level-1 files, then levels 2/3 read back from the replica) with the fault plan restricted to one kind of client call.'),
        "assumptions": ["file replica client underneath the injector", "monitors off: the retry loops exercised are SyncAndWait's caller-driven retries and Close's shutdown retry"],
        "runs": [
            {"name": "histories", "test": "TestProp_C05", "kind": "rapid", "checks_quick": 400, "checks_thorough": 1500, "shards": 6},
        ],
    },
    "C10": {
        "manifest": {
            "text": "replicas produced by generated histories; every restore runs in a child process; damages: truncate at an offset, flip a bit, delete a file (inside and outside the restore plan), read-fault schedules up to and beyond the retry budget, pre-existing output / temp file, integrity-check modes against a source with a scribbled b-tree page; outcome must be an error or byte-identical output, never a partial file, a leftover temp file, an overwritten output or a process death. Thorough enumerates every truncation offset and a bit flip at every byte of every plan file of fixed replicas",
            "note": "deleting the tail file of the chain legitimately yields the previous state (accepted); each injected read retry costs the code's own back-off so read-fault schedules are sampled",
            "technique": "property-based testing (rapid) with fault injection and a byte-equality oracle; exhaustive single-corruption enumeration per replica (fault enumeration)",
        },
        "binary": "props",
        "level": "fault_enumeration",
        "rule": ("per case: a replica from a 3-12 step history (page size 512/1024/4096, 1-2 levels, compaction, snapshots) and 6-24 damages drawn from {truncate at "
                 "offset, flip bit at offset, delete file} on plan / non-plan files, {read error, premature EOF, open failure} x 1-2 or 5 faults per restore, "
                 "{output exists, output.tmp exists}, {integrity None/Quick/Full x scribbled source}. Thorough: fixed replicas x every plan file x every byte "
                 "offset x {truncate, flip}. Non-trivial = the damage hits a file of the restore plan, a read fault forces a resume, or an output-path/"
                 "integrity scenario; distinct = hash of (history, damages)."
                 " Damage kind image: an intact replica encoding a database image with junk in the file header, the schema page or another page, restored with an integrity mode; the expected outcome is computed with the harness's own SQLite."),
        "assumptions": ["file replica client", "single corruptions (one damage per restore)"],
        "runs": [
            {"name": "damages", "test": "TestProp_C10", "kind": "rapid", "checks_quick": 240, "checks_thorough": 2000, "shards": 6},
            {"name": "enumerate-offsets", "test": "TestEnum_C10", "kind": "plain", "shards_quick": 6, "shards_thorough": 8,
             "env": {"VERIF_ENUM": "1"}, "env_quick": {"VERIF_ENUM_REPLICAS": "1", "VERIF_ENUM_STRIDE": "7"}, "env_thorough": {"VERIF_ENUM_REPLICAS": "6", "VERIF_ENUM_STRIDE": "1"}},
        ],
        "exhaustive_thorough": False,
    },
    "C11": {
        "manifest": {
            "text": "generated scenarios (sync, upload, checkpoint, compaction, snapshot, retention, restore, restart after losing the local state) executed by a child process under a ptrace tracer; over the recorded syscall trace: a file renamed to a final name was fsynced after its last write (P1), its directory is fsynced before success is written to stdout (P2), and an LTX file is unlinked only after a superseding file is durable by the trace's own accounting (P3)",
            "note": "process-level syscall ordering on the file systems present (no block-level reordering model); files existing before a traced session are assumed durable; the tracer is part of /verif, no hook in /repo",
            "technique": "property-based testing (rapid) of generated scenarios with a trace-invariant oracle over ptrace-recorded system calls",
        },
        "binary": "props",
        "level": "exploration",
        "rule": ("scenarios of 4-10 litestream commands with 1-2 application writes between them (commands: sync, syncwait, rsync, checkpoint x4 modes, compact, "
                 "snapshot, retention x3, restore), optionally followed by a restart with the meta directory removed; every rename to a final name and every "
                 "unlink of an LTX file in the trace is one evaluation. Non-trivial = the trace contains a checked rename and reached a success ACK; distinct = hash of the scenario."
                 ' 40% of the cases add a traced follow-mode restore (initial restore, then 1-3 more replicated transactions applied with the TXID sidecar republished).'),
        "assumptions": ["x86_64 Linux ptrace", "lsdriver executes one command at a time on one goroutine"],
        "runs": [
            {"name": "scenarios", "test": "TestProp_C11", "kind": "rapid", "checks_quick": 150, "checks_thorough": 600, "shards": 8},
        ],
    },
    "C03": {
        "manifest": {
            "text": "scenarios of litestream commands run by a child process that the ptrace supervisor SIGKILLs at the enter-stop of the k-th file-system-mutating system call (global counter over all threads); after the kill: every LTX-named file under the meta and replica trees verifies, an in-flight restore output is absent or complete, everything acknowledged before the kill is still restorable; after an unassisted restart the first acknowledged sync satisfies the R1 page oracle and the continued history ends with R1. Fixed scenarios (one per command class) are killed at every k in thorough",
            "note": "process kill, not power loss (no block-level reordering); the application lives in the harness process and is idle between kill and restart; kill indices of fixed scenarios are enumerated completely in thorough, sampled in quick",
            "technique": "fault enumeration over syscall-level kill points (ptrace supervisor) plus property-based generation of (scenario, kill point) pairs (rapid)",
        },
        "binary": "props",
        "level": "fault_enumeration",
        "rule": ("generated: scenarios of 4-10 commands {sync, syncwait, rsync, checkpoint x4, compact, snapshot, retention x3, restore} with 1-2 application writes between them, a "
                 "dry run under the tracer to learn the number N of mutating calls, kill index k = 3%..100% of N, optional second kill after the restart. Enumeration: 6 "
                 "fixed scenarios x every k in 1..N (thorough) or every 9th k (quick). Non-trivial = the kill landed inside a command after 'open'; distinct = hash of (scenario, k)."
                 ' Cases may carry generated application activity (writes, checkpoints of all modes) executed between the kill and the restart.'),
        "assumptions": ["x86_64 Linux ptrace", "lsdriver executes one command at a time on one goroutine, so its syscall sequence is deterministic up to Go runtime noise"],
        "runs": [
            {"name": "generated", "test": "TestProp_C03", "kind": "rapid", "checks_quick": 48, "checks_thorough": 600, "shards": 8},
            {"name": "enumerate-kill-points", "test": "TestEnum_C03", "kind": "plain", "shards": 8, "env": {"VERIF_ENUM": "1"},
             "env_quick": {"VERIF_ENUM_STRIDE": "9"}, "env_thorough": {"VERIF_ENUM_STRIDE": "1"}},
        ],
    },
    "C16": {
        "manifest": {
            "text": "primary histories with compaction, snapshots and immediate level-0 retention run in slices; a follower child process (Restore with Follow) is started, stopped with SIGTERM or killed by the ptrace supervisor before a chosen mutating system call, and restarted; the sidecar TXID must always parse and never decrease; after convergence (bounded by poll count) the follower file equals Restore(TXID=sidecar) except for the header bytes follow mode rewrites",
            "note": "kill points are sampled (estimated call count), not enumerated per session; the primary runs in the harness process between follower sessions and optionally while the follower is live",
            "technique": "property-based testing (rapid) of (primary history, follower stop/kill schedule) with syscall-level kill injection and a byte-equality oracle against ordinary restore",
        },
        "binary": "props",
        "level": "fault_enumeration",
        "rule": ("2-4 rounds; each round = a primary slice of 3-10 ops run while the follower is down (creates level-0 gaps to bridge), optionally a second slice run while the follower is live, "
                 "then a follower session that is killed before mutating call k (k sampled) and restarted, or stopped cleanly. Non-trivial = a resume had to bridge a missing level-0 TXID "
                 "from a higher level, or a kill landed inside applyLTXFile (before a pwrite/fsync/ftruncate on the follower database); distinct = hash of the case."
                 ' Levels 1-3; prune ops (TXID retention of a level up to what the next level holds) and ladder slices leave the follower several levels behind with lower levels partly deleted.'),
        "assumptions": ["x86_64 Linux ptrace", "file replica client", "convergence wait bounded by 4000 polls of 2 ms with a static replica"],
        "runs": [
            {"name": "schedules", "test": "TestProp_C16", "kind": "rapid", "checks_quick": 64, "checks_thorough": 500, "shards": 8},
        ],
    },
    "C19": {
        "manifest": {
            "text": "0.3.x layouts synthesised from real SQLite histories (1-3 generations, 1-4 WAL indices each, snapshots at a drawn subset of indices, WALs cut at commit boundaries into LZ4 segments, synthetic strictly increasing file times), optionally one segment removed, optionally a timestamp at/around every file time, optionally a current-format replica next to it; restore must yield the ledger state at the end of the last contiguous eligible segment, or an error when something lies beyond a hole or no snapshot is eligible; format arbitration checked against restoring the current-format files alone",
            "note": "expected state and arbitration are computed from the layout and file times alone; a missing tail segment of an index followed by a later index is undetectable from the layout and recorded as a known finding",
            "technique": "property-based testing (rapid) with a reference model of the legacy layout semantics and a differential check for format arbitration",
        },
        "binary": "props",
        "level": "exploration",
        "rule": ("layouts from histories of insert/update/delete/DDL/incremental-vacuum transactions (20% 'uniform' histories whose WALs have equal lengths, to provoke offset "
                 "coincidences) x remove in {none, any one segment} x T in {none, each file time -1s/0/+1s} x current-format replica in {absent, older, newer}. "
                 "Non-trivial = >=2 indices after the snapshot with a WAL split into >=2 segments, or a segment removed, or both formats present; distinct = hash of the case."
                 ' Generation IDs may sort in reverse age order; the current-format files may lie between the newest legacy snapshot and the legacy WAL segments after it.'),
        "assumptions": ["file replica client (CreatedAt = file mtime)", "segments end at commit boundaries, as 0.3.x produced them"],
        "runs": [
            {"name": "layouts", "test": "TestProp_C19", "kind": "rapid", "checks_quick": 2400, "checks_thorough": 10000, "shards": 8},
        ],
    },
    "C18": {
        "manifest": {
            "text": "primary histories with growth, partial shrink (auto_vacuum FULL, incremental_vacuum), VACUUM, compaction and level-0 retention against a file replica; a VFSFile opened at a drawn point and polled at drawn points through a hook (the background ticker never fires); after open, after every poll, after time-travel and reset: FileSize and every page served by ReadAt equal an ordinary restore at the VFS position (or at the requested time), header bytes masked",
            "note": "background hydration (temporary and persistent local file, reopened) is exercised with the hydration goroutine parked at two hook points; VFS write mode and VFS-side compaction are not exercised; two known findings (poll after a partial shrink, young replica) excluded by shape",
            "technique": "stateful property-based testing (rapid) with a differential oracle against ordinary restore",
        },
        "binary": "propsvfs",
        "level": "exploration",
        "rule": ("histories of 8-30 steps over {application ops incl. delete+incremental_vacuum, SyncAndWait, Compact(l), Snapshot, vfs-open, vfs-poll, vfs-time(T), vfs-reset}; "
                 "page sizes 512..8192, auto_vacuum none/full/incremental, L0Retention 0 or 1ns. Non-trivial = a poll or plan consumed a file whose commit is smaller than the "
                 "previous commit, or a poll ran after the level-0 files it would have read were compacted away; distinct = hash of the case."
                 ' Also: several replicated transactions of different kinds picked up by one poll; a reader holding the SHARED lock while the poller runs (compared after unlock); polls while a time-travel view is installed (the view must not move); half of the cases give the VFS file a two-page cache so that compared pages are fetched through the page index instead of a cached copy. Three in five cases open the file through VFS.Open with background hydration (temporary or persistent local file): the hydration goroutine runs freely or is parked (phase hook) after capturing its position or just before declaring itself complete while polls, resets, time travel and primary activity go on; vfs-hydrate-finish lets it complete and compares reads served from the hydrated file; vfs-close / vfs-reopen resume a persistent file after the replica moved on, compacted and retired level-0 files.'),
        "assumptions": ["file replica client", "build tags verif,vfs with cgo"],
        "runs": [
            {"name": "histories", "test": "TestProp_C18", "kind": "rapid", "checks_quick": 400, "checks_thorough": 2500, "shards": 6},
        ],
    },
    "C17": {
        "manifest": {
            "text": "databases of ~1 GiB (bulk-loaded with journal_mode=OFF on tmpfs) whose committed size ends just before, just after or well past the lock-byte page, for every page size in thorough; first sync (full-database encoding), growth across the boundary in one transaction (growth fill), an update touching both ends, a level-9 snapshot and a compaction must all succeed; no LTX file on the replica lists the lock page; the restore has the source's length, equals it on every page except the lock page, and the lock page is empty",
            "note": "finite grid (page size x start position x growth); quick covers 6 grid points chosen by VERIF_SEED (always incl. growth across the boundary at 4096 and 65536), thorough the whole grid; sizes far beyond 1 GiB are not explored",
            "technique": "grid-driven property check with a byte-level differential oracle (small finite configuration grid; rapid draws grid points)",
        },
        "binary": "props",
        "level": "exploration",
        "rule": ("grid = page size in {4096,8192,16384,65536} (thorough: all 8 sizes) x committed size before attaching in {lock-40, lock-3, lock-1, lock+1, lock+2, lock+30} x growth in one "
                 "transaction of {0,3,50} pages; each case runs first sync, growth sync, both-ends update sync, Snapshot, Compact(1), then checks every replica file's page index and a full "
                 "restore. Every case is non-trivial (the lock page is at, next to, or inside the committed range); distinct = grid point."
                 ' Quick always includes one database that is already beyond the lock page when litestream first sees it; every case checkpoints before its snapshot and compares a restore through level 0 and one through the snapshot.'),
        "assumptions": ["/dev/shm tmpfs with ~3 GiB free per running case"],
        "runs": [
            {"name": "grid", "test": "TestGrid_C17", "kind": "plain", "shards_quick": 6, "shards_thorough": 6, "env": {"VERIF_ENUM": "1"}, "timeout_quick": 1500, "timeout_thorough": 14400},
        ],
        "exhaustive_thorough": True,
    },
    "C12": {
        "manifest": {
            "text": "a Store with its DB and replica monitors running at millisecond intervals, 3-6 goroutines executing generated programs over the daemon's operations (sync, upload, all checkpoint modes, status queries, CRC64, register/unregister, enable/disable; per-level compaction, snapshot and retention each driven by one dedicated goroutine as in the daemon) and 1-2 application writers with multi-statement transactions and rollbacks, built with the race detector; oracles: race reports, a watchdog on every operation and on Close, an external lock probe and a descriptor scan after Close, duplicate-registration count, and after quiescing the R1 page oracle plus the per-TXID ledger check",
            "note": "schedules are whatever the Go scheduler produces under -race with GOMAXPROCS in {2,4,16}: a stress check, not an enumeration; a failure is reported with its programs but may not replay; this is the property the technique attacks most weakly (DESIGN section 6)",
            "technique": "randomized concurrency stress of generated operation programs (rapid) under the Go race detector with sound post-quiescence oracles",
        },
        "binary": "propsrace",
        "level": "exploration",
        "rule": ("per case: page size, MinCheckpointPageN, 3-6 goroutines x 8-30 ops, 1-2 writers x 10-40 transactions, GOMAXPROCS. Non-trivial = at least two different operation kinds "
                 "overlapped in time (measured from start/end of operations, used for classification only); distinct = hash of the case."
                 ' Operations include Close with an expiring (3 ms) or already cancelled context behind a harness gate that keeps other lifecycle requests out (the instance must be closed when the call returns); an operation that uses up its whole 20 s budget waiting is a violation.'),
        "assumptions": ["the OS/Go scheduler chooses the interleavings", "watchdog bounds (45 s per operation, 90 s for Close) exceed observed maxima by two orders of magnitude"],
        "runs": [
            {"name": "stress", "test": "TestProp_C12", "kind": "rapid", "checks_quick": 96, "checks_thorough": 800, "shards": 8, "confirm": False, "shrinktime": "0s",
             "gomaxprocs": 16, "env": {"GORACE": "halt_on_error=1 exitcode=66"}},
        ],
    },
}
