package litestream_test

import (
	"context"
	"database/sql"
	"path/filepath"
	"testing"
	"time"

	"github.com/benbjohnson/litestream"
	"github.com/benbjohnson/litestream/file"
	"github.com/benbjohnson/litestream/internal/testingutil"
)

func TestCkptFailAfterTruncate(t *testing.T) {
	for _, mode := range []string{litestream.CheckpointModeTruncate, litestream.CheckpointModeRestart} {
		t.Run(mode, func(t *testing.T) {
			ctx := context.Background()
			db, sqldb := testingutil.MustOpenDBs(t)
			defer testingutil.MustCloseDBs(t, db, sqldb)
			db.BusyTimeout = 50 * time.Millisecond
			replicaDir := t.TempDir()
			db.Replica = litestream.NewReplicaWithClient(db, file.NewReplicaClient(replicaDir))
			db.Replica.MonitorEnabled = false
			if _, err := sqldb.Exec(`CREATE TABLE t (id INTEGER PRIMARY KEY, v BLOB)`); err != nil {
				t.Fatal(err)
			}
			for i := 0; i < 30; i++ {
				if _, err := sqldb.Exec(`INSERT INTO t (v) VALUES (randomblob(3000))`); err != nil {
					t.Fatal(err)
				}
			}
			if err := db.Sync(ctx); err != nil {
				t.Fatal(err)
			}
			// second connection used to hold the write lock
			other, err := sql.Open("sqlite", db.Path())
			if err != nil {
				t.Fatal(err)
			}
			defer other.Close()
			var held *sql.Tx
			litestream.HookBeforeCkpt = func() {
				// a commit lands between the sealed sync and the checkpoint
				if _, err := sqldb.Exec(`INSERT INTO t (v) VALUES (randomblob(9000))`); err != nil {
					t.Error(err)
				}
			}
			litestream.HookAfterCkpt = func() {
				// another writer holds the write lock when litestream bumps its sequence row
				held, err = other.Begin()
				if err != nil {
					t.Error(err)
				}
				if _, err := held.Exec(`INSERT INTO t (v) VALUES (randomblob(10))`); err != nil {
					t.Error(err)
				}
			}
			err = db.Checkpoint(ctx, mode)
			litestream.HookBeforeCkpt, litestream.HookAfterCkpt = nil, nil
			t.Logf("checkpoint err=%v", err)
			if held != nil {
				if err := held.Commit(); err != nil {
					t.Fatal(err)
				}
			}
			if _, err := sqldb.Exec(`INSERT INTO t (v) VALUES (randomblob(10))`); err != nil {
				t.Fatal(err)
			}
			if err := db.Sync(ctx); err != nil {
				t.Fatal(err)
			}
			if err := db.Replica.Sync(ctx); err != nil {
				t.Fatal(err)
			}
			out := filepath.Join(t.TempDir(), "restored.db")
			opt := litestream.NewRestoreOptions()
			opt.OutputPath = out
			if err := db.Replica.Restore(ctx, opt); err != nil {
				t.Fatal(err)
			}
			r, err := sql.Open("sqlite", out)
			if err != nil {
				t.Fatal(err)
			}
			defer r.Close()
			var ic string
			if err := r.QueryRow(`PRAGMA integrity_check`).Scan(&ic); err != nil {
				t.Fatalf("integrity: %v", err)
			}
			var n, m int
			_ = r.QueryRow(`SELECT count(*) FROM t`).Scan(&n)
			_ = sqldb.QueryRow(`SELECT count(*) FROM t`).Scan(&m)
			if ic != "ok" || n != m {
				t.Fatalf("restored: integrity=%q rows=%d source rows=%d", ic, n, m)
			}
		})
	}
}
